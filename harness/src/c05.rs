//! C05: conformance to the specification in both directions.
//!  `spec <hex>`  : hex = to_vec(v) of a generated value; the trace is `OK <text(v)>`; the oracle runs the
//!                  specification-derived reference decoder (Codec/Spec.v) on the bytes: it must accept them as exactly v.
//!  `specv <hex>` : hex = an ALTERNATIVE spec-valid encoding of a generated value produced by the variant encoder below
//!                  (other widths, list0/8/32, boolean 0x56, ulong/smallulong/ulong0 or symbol descriptors in either
//!                  width, an element constructor on an empty array ...); the trace is what the real from_slice::<Value>
//!                  returns; the oracle runs the reference decoder.  Both must be the value.
use crate::out::*;
use crate::rng::Rng;
use crate::val::*;
use serde_amqp::described::Described;
use serde_amqp::descriptor::Descriptor;
use serde_amqp::Value;
use std::panic::{catch_unwind, AssertUnwindSafe};

fn be(n: u64, k: usize) -> Vec<u8> {
    n.to_be_bytes()[8 - k..].to_vec()
}

fn var(out: &mut Vec<u8>, c8: u8, c32: u8, data: &[u8], r: &mut Rng) {
    if data.len() <= 255 && r.below(2) == 0 {
        out.push(c8);
        out.push(data.len() as u8);
    } else {
        out.push(c32);
        out.extend(be(data.len() as u64, 4));
    }
    out.extend_from_slice(data);
}

fn compound(out: &mut Vec<u8>, c8: u8, c32: u8, count: usize, body: &[u8], r: &mut Rng) {
    if body.len() + 1 <= 255 && count <= 255 && r.below(2) == 0 {
        out.push(c8);
        out.push((body.len() + 1) as u8);
        out.push(count as u8);
    } else {
        out.push(c32);
        out.extend(be((body.len() + 4) as u64, 4));
        out.extend(be(count as u64, 4));
    }
    out.extend_from_slice(body);
}

/// the data part of an array element under constructor `code` (no constructor byte)
fn elem_data(v: &Value, code: u8) -> Option<Vec<u8>> {
    Some(match (v, code) {
        (Value::Bool(b), 0x56) => vec![*b as u8],
        (Value::Ubyte(n), 0x50) => vec![*n],
        (Value::Ushort(n), 0x60) => be(*n as u64, 2),
        (Value::Uint(n), 0x70) => be(*n as u64, 4),
        (Value::Uint(n), 0x52) if *n < 256 => vec![*n as u8],
        (Value::Ulong(n), 0x80) => be(*n, 8),
        (Value::Ulong(n), 0x53) if *n < 256 => vec![*n as u8],
        (Value::Byte(n), 0x51) => vec![*n as u8],
        (Value::Short(n), 0x61) => be(*n as u16 as u64, 2),
        (Value::Int(n), 0x71) => be(*n as u32 as u64, 4),
        (Value::Int(n), 0x54) if (-128..128).contains(n) => vec![*n as i8 as u8],
        (Value::Long(n), 0x81) => be(*n as u64, 8),
        (Value::Long(n), 0x55) if (-128..128).contains(n) => vec![*n as i8 as u8],
        (Value::Float(f), 0x72) => be(f.into_inner().to_bits() as u64, 4),
        (Value::Double(f), 0x82) => be(f.into_inner().to_bits(), 8),
        (Value::Decimal32(d), 0x74) => d.clone().into_inner().to_vec(),
        (Value::Decimal64(d), 0x84) => d.clone().into_inner().to_vec(),
        (Value::Decimal128(d), 0x94) => d.clone().into_inner().to_vec(),
        (Value::Char(c), 0x73) => be(*c as u32 as u64, 4),
        (Value::Timestamp(t), 0x83) => be(t.milliseconds() as u64, 8),
        (Value::Uuid(u), 0x98) => u.as_inner().to_vec(),
        (Value::Binary(b), 0xa0) if b.len() < 256 => [vec![b.len() as u8], b.to_vec()].concat(),
        (Value::Binary(b), 0xb0) => [be(b.len() as u64, 4), b.to_vec()].concat(),
        (Value::String(s), 0xa1) if s.len() < 256 => [vec![s.len() as u8], s.as_bytes().to_vec()].concat(),
        (Value::String(s), 0xb1) => [be(s.len() as u64, 4), s.as_bytes().to_vec()].concat(),
        (Value::Symbol(s), 0xa3) if s.0.len() < 256 => [vec![s.0.len() as u8], s.0.as_bytes().to_vec()].concat(),
        (Value::Symbol(s), 0xb3) => [be(s.0.len() as u64, 4), s.0.as_bytes().to_vec()].concat(),
        _ => return None,
    })
}

/// constructors under which every element of the (homogeneous, scalar) array can be written
fn array_codes(a: &[Value]) -> Vec<u8> {
    let all: [u8; 27] = [
        0x56, 0x50, 0x60, 0x70, 0x52, 0x80, 0x53, 0x51, 0x61, 0x71, 0x54, 0x81, 0x55, 0x72, 0x82, 0x74, 0x84, 0x94, 0x73, 0x83, 0x98, 0xa0, 0xb0, 0xa1, 0xb1, 0xa3,
        0xb3,
    ];
    all.iter().cloned().filter(|c| a.iter().all(|x| elem_data(x, *c).is_some())).collect()
}

/// one spec-valid encoding of `v`, choices drawn from `r`; None when the value has no encoding in the model's scope
pub fn encode_variant(v: &Value, r: &mut Rng, out: &mut Vec<u8>) -> Option<()> {
    match v {
        Value::Described(d) => {
            out.push(0x00);
            match &d.descriptor {
                Descriptor::Name(s) => var(out, 0xa3, 0xb3, s.0.as_bytes(), r),
                Descriptor::Code(c) => {
                    if *c == 0 && r.below(2) == 0 {
                        out.push(0x44);
                    } else if *c < 256 && r.below(2) == 0 {
                        out.push(0x53);
                        out.push(*c as u8);
                    } else {
                        out.push(0x80);
                        out.extend(be(*c, 8));
                    }
                }
            }
            encode_variant(&d.value, r, out)?;
        }
        Value::Null => out.push(0x40),
        Value::Bool(b) => {
            if r.below(2) == 0 {
                out.push(if *b { 0x41 } else { 0x42 });
            } else {
                out.push(0x56);
                out.push(*b as u8);
            }
        }
        Value::Uint(n) => {
            if *n == 0 && r.below(2) == 0 {
                out.push(0x43);
            } else if *n < 256 && r.below(2) == 0 {
                out.push(0x52);
                out.push(*n as u8);
            } else {
                out.push(0x70);
                out.extend(be(*n as u64, 4));
            }
        }
        Value::Ulong(n) => {
            if *n == 0 && r.below(2) == 0 {
                out.push(0x44);
            } else if *n < 256 && r.below(2) == 0 {
                out.push(0x53);
                out.push(*n as u8);
            } else {
                out.push(0x80);
                out.extend(be(*n, 8));
            }
        }
        Value::Int(n) => {
            if (-128..128).contains(n) && r.below(2) == 0 {
                out.push(0x54);
                out.push(*n as i8 as u8);
            } else {
                out.push(0x71);
                out.extend(be(*n as u32 as u64, 4));
            }
        }
        Value::Long(n) => {
            if (-128..128).contains(n) && r.below(2) == 0 {
                out.push(0x55);
                out.push(*n as i8 as u8);
            } else {
                out.push(0x81);
                out.extend(be(*n as u64, 8));
            }
        }
        Value::Binary(b) => var(out, 0xa0, 0xb0, b, r),
        Value::String(s) => var(out, 0xa1, 0xb1, s.as_bytes(), r),
        Value::Symbol(s) => var(out, 0xa3, 0xb3, s.0.as_bytes(), r),
        Value::List(l) => {
            if l.is_empty() && r.below(2) == 0 {
                out.push(0x45);
            } else {
                let mut body = Vec::new();
                for x in l {
                    encode_variant(x, r, &mut body)?;
                }
                compound(out, 0xc0, 0xd0, l.len(), &body, r);
            }
        }
        Value::Map(m) => {
            let mut body = Vec::new();
            for (k, x) in m.iter() {
                encode_variant(k, r, &mut body)?;
                encode_variant(x, r, &mut body)?;
            }
            compound(out, 0xc1, 0xd1, 2 * m.len(), &body, r);
        }
        Value::Array(a) => {
            let mut body = Vec::new();
            if a.0.is_empty() {
                // an empty array may or may not carry an element constructor
                match r.below(3) {
                    0 => {}
                    1 => body.push(0x40),
                    _ => body.push(0x71),
                }
            } else {
                let codes = array_codes(&a.0);
                if codes.is_empty() {
                    return None;
                }
                let c = *r.pick(&codes);
                body.push(c);
                for x in a.0.iter() {
                    body.extend(elem_data(x, c)?);
                }
            }
            compound(out, 0xe0, 0xf0, a.0.len(), &body, r);
        }
        // fixed-width types without a variant: the one constructor
        other => {
            let code = match other {
                Value::Ubyte(_) => 0x50,
                Value::Ushort(_) => 0x60,
                Value::Byte(_) => 0x51,
                Value::Short(_) => 0x61,
                Value::Float(_) => 0x72,
                Value::Double(_) => 0x82,
                Value::Decimal32(_) => 0x74,
                Value::Decimal64(_) => 0x84,
                Value::Decimal128(_) => 0x94,
                Value::Char(_) => 0x73,
                Value::Timestamp(_) => 0x83,
                Value::Uuid(_) => 0x98,
                _ => return None,
            };
            out.push(code);
            out.extend(elem_data(other, code)?);
        }
    }
    Some(())
}

fn maps_have_distinct_keys(v: &Value) -> bool {
    match v {
        Value::Described(d) => maps_have_distinct_keys(&d.value),
        Value::List(l) => l.iter().all(maps_have_distinct_keys),
        Value::Array(a) => a.0.iter().all(maps_have_distinct_keys),
        Value::Map(m) => m.iter().all(|(k, x)| maps_have_distinct_keys(k) && maps_have_distinct_keys(x)),
        _ => true,
    }
}

pub fn run(seed: u64, n: u64, thorough: bool, corpus: &[String], dir: &str) {
    crate::codec::quiet_panics();
    let mut out = Outputs::new(dir);
    let mut r = Rng::new(seed);
    let _ = thorough;
    // former witnesses first: raw `specv` lines
    for l in corpus {
        if let Some(h) = l.strip_prefix("specv ") {
            if let Some(bytes) = unhex(h.trim()) {
                let got = catch_unwind(AssertUnwindSafe(|| serde_amqp::from_slice::<Value>(&bytes)));
                let t = match &got {
                    Ok(Ok(b)) => format!("OK {}", text(b)),
                    Ok(Err(_)) => "INVALID".to_string(),
                    Err(_) => "PANIC".to_string(),
                };
                out.count("corpus_cases");
                out.case(l, &t);
            }
        }
    }
    // the 8-bit / 32-bit width boundaries of every variable-width and compound encoding, one octet apart
    for v in boundary_values() {
        if let Ok(Ok(bytes)) = catch_unwind(AssertUnwindSafe(|| serde_amqp::to_vec(&v))) {
            out.count("boundary_cases");
            out.case(&format!("spec {}", hex(&bytes)), &format!("OK {}", text(&v)));
        }
    }
    for _ in 0..n {
        let v = gen_value(&mut r, 3, 0);
        if has_unsupported_array(&v) || exceeds_count_cap(&v) || !maps_have_distinct_keys(&v) {
            out.count("skipped_outside_scope");
            continue;
        }
        // (a) what the encoder writes is valid per the specification, and is this value
        if let Ok(Ok(bytes)) = catch_unwind(AssertUnwindSafe(|| serde_amqp::to_vec(&v))) {
            let line = format!("spec {}", hex(&bytes));
            out.count("spec_cases");
            out.case(&line, &format!("OK {}", text(&v)));
        }
        // (b) other valid encodings of the same value are accepted and mean the same
        for _ in 0..3 {
            let mut bytes = Vec::new();
            if encode_variant(&v, &mut r, &mut bytes).is_none() {
                out.count("no_variant");
                continue;
            }
            let line = format!("specv {}", hex(&bytes));
            let got = catch_unwind(AssertUnwindSafe(|| serde_amqp::from_slice::<Value>(&bytes)));
            let t = match &got {
                Ok(Ok(b)) => format!("OK {}", text(b)),
                Ok(Err(_)) => "INVALID".to_string(),
                Err(_) => "PANIC".to_string(),
            };
            out.count("variant_cases");
            let own = catch_unwind(AssertUnwindSafe(|| serde_amqp::to_vec(&v)));
            if own.is_err() {
                out.violation("c05-encoder-panic", "to_vec panics on a well-formed value", &format!("enc {}", text(&v)));
            }
            if bytes != own.ok().and_then(|r| r.ok()).unwrap_or_default() {
                out.nontrivial(&line);
            }
            match &got {
                Ok(Ok(b)) if *b == v => {}
                Ok(Ok(b)) => out.violation(
                    "c05-variant-misdecoded",
                    &format!("c05-variant-misdecoded: {} is a valid encoding of {} but decodes to {}", hex(&bytes), text(&v), text(b)),
                    &line,
                ),
                Ok(Err(e)) => out.violation(
                    "c05-variant-rejected",
                    &format!("c05-variant-rejected: {} is a valid encoding of {} but is rejected: {:?}", hex(&bytes), text(&v), e),
                    &line,
                ),
                Err(_) => out.violation("c05-panic", &format!("c05-panic: decoding {} panicked", hex(&bytes)), &line),
            }
            out.case(&line, &t);
            // (c) the same encodings read lazily (LazyValue takes the octets of one value without decoding them): a list
            // of the value and a marker read as (LazyValue, u8) must hand back exactly the value's octets
            let mut lst = vec![0xd0u8];
            lst.extend(be((bytes.len() + 2 + 4) as u64, 4));
            lst.extend(be(2, 4));
            lst.extend_from_slice(&bytes);
            lst.extend_from_slice(&[0x50, 0x2a]);
            out.count("lazy_cases");
            let lz = catch_unwind(AssertUnwindSafe(|| serde_amqp::from_slice::<(serde_amqp::lazy::LazyValue, u8)>(&lst)));
            // ... through either reader
            let lzio = catch_unwind(AssertUnwindSafe(|| serde_amqp::from_reader::<(serde_amqp::lazy::LazyValue, u8)>(&lst[..])));
            match lzio {
                Ok(Ok((l, 0x2a))) if l.as_slice() == &bytes[..] => {}
                Ok(other) => out.violation(
                    "c05-lazy-variant-io",
                    &format!(
                        "c05-lazy-variant-io: {} is a valid encoding of {}; read lazily through from_reader it gives {}",
                        hex(&bytes),
                        text(&v),
                        match &other {
                            Ok((l, m)) => format!("octets {} and marker {:#x}", hex(l.as_slice()), m),
                            Err(e) => format!("{:?}", e),
                        }
                    ),
                    &line,
                ),
                Err(_) => out.violation("c05-panic", &format!("c05-panic: lazy read of {} through from_reader panicked", hex(&bytes)), &line),
            }
            match lz {
                Ok(Ok((l, 0x2a))) if l.as_slice() == &bytes[..] => {}
                Ok(other) => out.violation(
                    "c05-lazy-variant",
                    &format!(
                        "c05-lazy-variant: {} is a valid encoding of {}; read lazily from a list followed by a ubyte it gives {}",
                        hex(&bytes),
                        text(&v),
                        match &other {
                            Ok((l, m)) => format!("octets {} and marker {:#x}", hex(l.as_slice()), m),
                            Err(e) => format!("{:?}", e),
                        }
                    ),
                    &line,
                ),
                Err(_) => out.violation("c05-panic", &format!("c05-panic: lazy read of {} panicked", hex(&bytes)), &line),
            }
        }
    }
    let _ = Described::<Value> { descriptor: Descriptor::Code(0), value: Value::Null };
    out.finish(dir);
}

/// values whose encodings lie on both sides of the str8/str32, sym8/sym32, vbin8/vbin32, list8/list32, map8/map32 and
/// array8/array32 boundaries (size 255 / 256, count 255 / 256)
fn boundary_values() -> Vec<Value> {
    use serde_amqp::primitives::{Array, OrderedMap, Symbol};
    let mut v = Vec::new();
    for l in 240usize..=262 {
        let bin: Vec<u8> = (0..l).map(|i| (i * 7 + 3) as u8).collect();
        let s: String = (0..l).map(|i| (b'a' + (i % 26) as u8) as char).collect();
        v.push(Value::Binary(bin.clone().into()));
        v.push(Value::String(s.clone()));
        v.push(Value::Symbol(Symbol(s.clone())));
        v.push(Value::List(vec![Value::Binary(bin.clone().into())]));
        v.push(Value::List(vec![Value::Ubyte(1), Value::String(s.clone())]));
        let mut m = OrderedMap::new();
        m.insert(Value::Symbol(Symbol("k".into())), Value::Binary(bin.clone().into()));
        v.push(Value::Map(m));
        let mut m2 = OrderedMap::new();
        m2.insert(Value::Ubyte(1), Value::String(s.clone()));
        m2.insert(Value::Ubyte(2), Value::Null);
        v.push(Value::Map(m2));
        v.push(Value::Array(Array((0..l).map(|i| Value::Ubyte(i as u8)).collect())));
        v.push(Value::Array(Array(vec![Value::Binary(bin.into())])));
        v.push(Value::List((0..l).map(|_| Value::Null).collect()));
    }
    for l in [60usize, 61, 62, 63, 64, 65, 126, 127, 128, 129] {
        // two- and four-octet elements: the size boundary is crossed at other counts
        v.push(Value::Array(Array((0..l).map(|i| Value::Uint(1000 + i as u32)).collect())));
        v.push(Value::Array(Array((0..l).map(|i| Value::Ushort(300 + i as u16)).collect())));
        v.push(Value::Array(Array((0..l / 2).map(|i| Value::Ulong(i as u64)).collect())));
        v.push(Value::Array(Array((0..l / 2).map(|i| Value::Long(i as i64 - 3)).collect())));
    }
    v
}
