//! C12: connection lifecycle against a scripted peer (client side).
use crate::eng::*;
use crate::out::*;
use crate::rng::Rng;
use fe2o3_amqp::connection::ConnectionHandle;
use fe2o3_amqp::session::SessionHandle;
use fe2o3_amqp::{Connection, Session};
use fe2o3_amqp_types::definitions::{self, AmqpError};
use fe2o3_amqp_types::performatives::{Begin, Close, End, Flow, Open, Performative};
use tokio::task::JoinHandle;

fn variant(s: &str) -> String {
    s.split(|c| c == '(' || c == '{' || c == ' ').next().unwrap_or(s).to_string()
}

pub fn peer_open(idle: Option<u32>, channel_max: u16, max_frame: u32) -> Performative {
    Performative::Open(Open {
        container_id: "peer".into(),
        hostname: None,
        max_frame_size: max_frame.into(),
        channel_max: channel_max.into(),
        idle_time_out: idle,
        outgoing_locales: None,
        incoming_locales: None,
        offered_capabilities: None,
        desired_capabilities: None,
        properties: None,
    })
}
pub fn peer_close(err: bool) -> Performative {
    Performative::Close(Close {
        error: if err { Some(definitions::Error::new(AmqpError::InternalError, Some("peer".into()), None)) } else { None },
    })
}
pub fn peer_begin(remote_channel: Option<u16>) -> Performative {
    Performative::Begin(Begin {
        remote_channel,
        next_outgoing_id: 0,
        incoming_window: 100,
        outgoing_window: 100,
        handle_max: Default::default(),
        offered_capabilities: None,
        desired_capabilities: None,
        properties: None,
    })
}
pub fn peer_end(err: bool) -> Performative {
    Performative::End(End {
        error: if err { Some(definitions::Error::new(AmqpError::InternalError, None, None)) } else { None },
    })
}
pub fn peer_flow() -> Performative {
    Performative::Flow(Flow {
        next_incoming_id: Some(0),
        incoming_window: 100,
        next_outgoing_id: 0,
        outgoing_window: 100,
        handle: None,
        delivery_count: None,
        link_credit: None,
        available: None,
        drain: false,
        echo: false,
        properties: None,
    })
}

enum Slot<T, R> {
    None,
    Have(T),
    Busy(JoinHandle<(Option<T>, R)>),
}

pub fn run_script(script: &str) -> String {
    let evs: Vec<String> = script.split(';').map(|s| s.trim().to_string()).filter(|s| !s.is_empty()).collect();
    paused_rt().block_on(async move {
        let (a, b) = tokio::io::duplex(1 << 20);
        let mut client_io = Some(a);
        let mut peer = Peer::new(b);
        let mut open_task: Option<JoinHandle<Result<ConnectionHandle<()>, fe2o3_amqp::connection::OpenError>>> = None;
        let mut conn: Slot<ConnectionHandle<()>, String> = Slot::None;
        let mut close_done = false;
        let mut begin_task: Option<JoinHandle<(ConnectionHandle<()>, Result<SessionHandle<()>, String>)>> = None;
        let mut sessions: Vec<SessionHandle<()>> = Vec::new();
        let mut out = String::new();
        let mut eof_reported = false;
        for ev in &evs {
            let w: Vec<&str> = ev.split_whitespace().collect();
            match w.as_slice() {
                ["open"] => {
                    if let Some(io) = client_io.take() {
                        open_task = Some(tokio::spawn(async move {
                            Connection::builder().container_id("c").max_frame_size(1024u32).open_with_stream(io).await
                        }));
                    }
                }
                ["ph"] => {
                    peer.write(&AMQP_HEADER).await;
                }
                ["phs"] => {
                    peer.write(&SASL_HEADER).await;
                }
                ["po"] => {
                    peer.write(&frame_bytes(0, &peer_open(None, 10, 1024), &[])).await;
                }
                ["pc"] => {
                    peer.write(&frame_bytes(0, &peer_close(false), &[])).await;
                }
                ["pce"] => {
                    peer.write(&frame_bytes(0, &peer_close(true), &[])).await;
                }
                ["pb", ch, rc] => {
                    let rc = if *rc == "-" { None } else { Some(rc.parse().unwrap()) };
                    peer.write(&frame_bytes(ch.parse().unwrap(), &peer_begin(rc), &[])).await;
                }
                ["pe", ch] => {
                    peer.write(&frame_bytes(ch.parse().unwrap(), &peer_end(false), &[])).await;
                }
                ["pf", ch] => {
                    peer.write(&frame_bytes(ch.parse().unwrap(), &peer_flow(), &[])).await;
                }
                ["pz"] => {
                    peer.write(&empty_frame()).await;
                }
                ["pw", hx] => {
                    // one length-delimited frame with exactly these bytes after the size field
                    let body = crate::val::unhex(hx).unwrap_or_default();
                    let mut fr = ((body.len() + 4) as u32).to_be_bytes().to_vec();
                    fr.extend(body);
                    peer.write(&fr).await;
                }
                ["eof"] => {
                    peer.shutdown().await;
                }
                ["close"] | ["closee"] => {
                    if let Slot::Have(_) = conn {
                        if let Slot::Have(mut h) = std::mem::replace(&mut conn, Slot::None) {
                            let with_err = w[0] == "closee";
                            conn = Slot::Busy(tokio::spawn(async move {
                                let r = if with_err {
                                    h.close_with_error(definitions::Error::new(AmqpError::NotAllowed, None, None)).await
                                } else {
                                    h.close().await
                                };
                                (Some(h), match r { Ok(()) => "ok".to_string(), Err(e) => format!("err:{}", variant(&format!("{:?}", e))) })
                            }));
                        }
                    }
                }
                ["abort"] => {
                    // cancel a pending close()/close_with_error(): the future is dropped and with it the handle
                    if let Slot::Busy(t) = &conn {
                        t.abort();
                        conn = Slot::None;
                    }
                }
                ["drop"] => {
                    if let Slot::Have(_) = conn {
                        conn = Slot::None;
                    }
                }
                ["begin"] => {
                    if let Slot::Have(_) = conn {
                        if begin_task.is_none() {
                            if let Slot::Have(mut h) = std::mem::replace(&mut conn, Slot::None) {
                                begin_task = Some(tokio::spawn(async move {
                                    let r = Session::begin(&mut h).await.map_err(|e| variant(&format!("{:?}", e)));
                                    (h, r)
                                }));
                            }
                        }
                    }
                }
                _ => panic!("bad c12 event {}", ev),
            }
            barrier().await;
            // observations
            let ws = peer.drain().await;
            let mut obs: Vec<String> = vec![tokens(&ws)];
            if let Some(t) = &open_task {
                if t.is_finished() {
                    match open_task.take().unwrap().await {
                        Ok(Ok(h)) => {
                            conn = Slot::Have(h);
                            obs.push("open=ok".into());
                        }
                        Ok(Err(e)) => obs.push(format!("open=err:{}", variant(&format!("{:?}", e)))),
                        Err(_) => obs.push("open=PANIC".into()),
                    }
                }
            }
            if let Some(t) = &begin_task {
                if t.is_finished() {
                    match begin_task.take().unwrap().await {
                        Ok((h, r)) => {
                            conn = Slot::Have(h);
                            match r {
                                Ok(s) => {
                                    sessions.push(s);
                                    obs.push("begin=ok".into());
                                }
                                Err(e) => obs.push(format!("begin=err:{}", e)),
                            }
                        }
                        Err(_) => obs.push("begin=PANIC".into()),
                    }
                }
            }
            if let Slot::Busy(t) = &conn {
                if t.is_finished() {
                    if let Slot::Busy(t) = std::mem::replace(&mut conn, Slot::None) {
                        match t.await {
                            Ok((h, r)) => {
                                obs.push(format!("close={}", r));
                                close_done = true;
                                if let Some(h) = h {
                                    conn = Slot::Have(h);
                                }
                            }
                            Err(_) => obs.push("close=PANIC".into()),
                        }
                    }
                }
            }
            if peer.eof && !eof_reported {
                eof_reported = true;
                obs.push("EOF".into());
            }
            out.push_str(&obs.join(" "));
            out.push_str(" ; ");
        }
        // final: what does the handle say, are calls still pending
        let mut fin = Vec::new();
        if open_task.is_some() {
            fin.push("open=PENDING".to_string());
        }
        if begin_task.is_some() {
            fin.push("begin=PENDING".to_string());
        }
        match conn {
            Slot::Busy(_) => fin.push("close=PENDING".into()),
            Slot::Have(mut h) => {
                if !close_done {
                    // a handle that was never closed: is the engine gone, and what does on_close report
                    let closed = h.is_closed();
                    if closed {
                        let r = tokio::time::timeout(std::time::Duration::from_millis(5), h.on_close()).await;
                        fin.push(match r {
                            Ok(Ok(())) => "stopped=ok".into(),
                            Ok(Err(e)) => format!("stopped=err:{}", variant(&format!("{:?}", e))),
                            Err(_) => "stopped=PENDING".into(),
                        });
                    } else {
                        fin.push("running".into());
                    }
                }
            }
            Slot::None => {}
        }
        out.push_str(&format!("# {}", fin.join(" ")));
        drop(sessions);
        out
    })
}

const ALPHABET: [&str; 14] = [
    "open", "ph", "phs", "po", "pc", "pce", "pb 0 -", "pb 0 3", "pe 0", "pf 0", "pz", "eof", "close", "closee",
];

pub fn gen_script(r: &mut Rng, max_len: u64) -> String {
    let n = r.range(1, max_len);
    let mut evs: Vec<&str> = Vec::new();
    // mostly sensible prefixes so that the later states are reached
    match r.below(10) {
        0 => {}
        1 => evs.push("open"),
        2 => evs.extend_from_slice(&["open", "ph"]),
        3 => evs.extend_from_slice(&["ph", "po", "open"]),
        _ => evs.extend_from_slice(&["open", "ph", "po"]),
    }
    let mut header_phase_over = evs.contains(&"ph");
    for _ in 0..n {
        let e = match r.below(20) {
            0..=2 => "pc",
            3 => "pce",
            4..=6 => "close",
            7 => "closee",
            8 => "drop",
            12 => "abort",
            9 => "eof",
            10..=11 => "pz",
            _ => *r.pick(&ALPHABET),
        };
        // protocol headers are only generated for the header phase (raw garbage later on is C15's business)
        if (e == "ph" || e == "phs") && header_phase_over {
            continue;
        }
        if e == "ph" || e == "phs" {
            header_phase_over = true;
        }
        evs.push(e);
    }
    evs.join(" ; ")
}

/// frames for the `pw` event (bytes after the size field): the performatives a connection without sessions can meet, and
/// frames that do not decode - the model classifies them from the bytes (Conn/WireEvents.v over Frame/AmqpFrame.v)
pub fn wire_frames() -> Vec<(String, &'static str)> {
    let fb = |ch: u16, p: &Performative, pay: &[u8]| crate::val::hex(&frame_bytes(ch, p, pay)[4..]);
    let open = frame_bytes(0, &peer_open(None, 10, 1024), &[]);
    let begin = frame_bytes(0, &peer_begin(None), &[]);
    let tr = fe2o3_amqp_types::performatives::Transfer {
        handle: 0.into(),
        delivery_id: Some(0),
        delivery_tag: Some(vec![1u8, 2].into()),
        message_format: Some(0),
        settled: None,
        more: false,
        rcv_settle_mode: None,
        state: None,
        resume: false,
        aborted: false,
        batchable: false,
    };
    let disp = fe2o3_amqp_types::performatives::Disposition {
        role: definitions::Role::Receiver,
        first: 0,
        last: None,
        settled: true,
        state: None,
        batchable: false,
    };
    let det = fe2o3_amqp_types::performatives::Detach { handle: 0.into(), closed: true, error: None };
    vec![
        (fb(0, &peer_begin(None), &[]), "begin without remote-channel"),
        (fb(1, &peer_begin(Some(3)), &[]), "begin naming an unknown channel"),
        (fb(0, &peer_end(false), &[]), "end on an unmapped channel"),
        (fb(0, &peer_end(true), &[]), "end with an error on an unmapped channel"),
        (fb(2, &peer_flow(), &[]), "flow on an unmapped channel"),
        (fb(0, &Performative::Transfer(tr), &[0, 0x53, 0x77, 0x40]), "transfer on an unmapped channel"),
        (fb(0, &Performative::Disposition(disp), &[]), "disposition on an unmapped channel"),
        (fb(0, &Performative::Detach(det), &[]), "detach on an unmapped channel"),
        (crate::val::hex(&open[4..]), "a second open"),
        (fb(0, &peer_close(false), &[]), "close"),
        (fb(0, &peer_close(true), &[]), "close with an error"),
        (fb(7, &peer_close(true), &[]), "close with an error on another channel"),
        ("02000000".to_string(), "empty frame"),
        ("02000005".to_string(), "empty frame on channel 5"),
        ("02000000ff0102".to_string(), "garbage body"),
        (crate::val::hex(&begin[4..begin.len() - 3]), "begin cut short"),
        ("0200000000531945".to_string(), "unknown descriptor"),
        ("0200000000532445".to_string(), "a delivery state where a performative belongs"),
        (format!("03000000{}", crate::val::hex(&begin[8..])), "extended header (doff 3)"),
        (format!("02010000{}", crate::val::hex(&begin[8..])), "SASL frame type after the open"),
        ("0200".to_string(), "shorter than the frame header"),
        (format!("{}ffff", crate::val::hex(&frame_bytes(0, &peer_end(false), &[])[4..])), "end followed by junk inside the frame"),
        ("0200000000a30e616d71703a626567696e3a6c69737445".to_string(), "begin by descriptor name, empty list (mandatory fields missing)"),
    ]
}

/// the property checked directly on the observed trace (no model involved)
pub fn direct_oracle(script: &str, trace: &str) -> Vec<String> {
    if script.contains("pw ") {
        // raw frames are judged by the model (which classifies them from their bytes) and by the hostile-peer harness
        return Vec::new();
    }
    let mut v = Vec::new();
    let evs: Vec<&str> = script.split(';').map(|s| s.trim()).filter(|s| !s.is_empty()).collect();
    let steps: Vec<&str> = trace.split('#').next().unwrap_or("").split(';').map(|s| s.trim()).collect();
    let mut wire: Vec<String> = Vec::new();
    let mut sent_close_at: Option<usize> = None;
    let mut local_close_pending = false;
    let mut inflight_after_local_close = false;
    let mut opened = false;
    let mut ended = false;
    let mut peer_error_for_open = false;
    for (i, e) in evs.iter().enumerate() {
        let st = steps.get(i).cloned().unwrap_or("");
        let toks: Vec<&str> = st.split_whitespace().collect();
        let w: Vec<String> = toks.first().map(|t| t.split(',').filter(|x| !x.is_empty() && !x.contains('=') && *x != "EOF").map(|x| x.to_string()).collect()).unwrap_or_default();
        let w: Vec<String> = if toks.first().map(|t| t.contains('=') || *t == "EOF").unwrap_or(true) { vec![] } else { w };
        let sent_close_before = sent_close_at;
        let opened_before = opened;
        // our open is on the wire, the peer's has not been seen and nothing has failed yet
        let open_sent_live = wire.iter().any(|t| t == "O") && !opened && !ended;
        for t in &w {
            if sent_close_at.is_some() {
                v.push(format!("after-close: {} written after the close (step {} of `{}`)", t, i, script));
            }
            if t.starts_with('C') {
                sent_close_at = Some(i);
            }
            wire.push(t.clone());
        }
        if st.contains("open=ok") {
            opened = true;
        }
        if st.contains("EOF") {
            opened = false; // the endpoint has shut the transport down: nothing can be answered any more
            ended = true;
        }
        // a peer close on an open connection is answered in that very step
        if (*e == "pc" || *e == "pce") && (opened || open_sent_live) && sent_close_at.is_none() {
            v.push(format!("close-unanswered: the peer's close (step {}) was not answered with a close", i));
        }
        // a frame that is illegal in the current state closes the connection with an error, in that very step
        let illegal_now = matches!(*e, "pb 0 -" | "pb 0 3" | "pe 0" | "pf 0") || (*e == "po" && opened_before);
        if illegal_now && (opened_before || open_sent_live) && sent_close_before.is_none() {
            if !w.iter().any(|t| t.starts_with("Ce(")) {
                v.push(format!("illegal-frame: `{}` (step {}) did not close the connection with an error, wrote {:?}", e, i, w));
            }
        }
        if *e == "pce" && open_sent_live && sent_close_before.is_none() {
            peer_error_for_open = true;
        }
        if peer_error_for_open && st.contains("open=") {
            if !st.contains("open=err:RemoteClosedWithError") {
                v.push(format!("peer-error: the peer closed with an error instead of opening but open() returned {}", st));
            }
            peer_error_for_open = false;
        }
        if *e == "close" && opened && sent_close_at == Some(i) {
            local_close_pending = true;
        }
        if local_close_pending && matches!(*e, "pb 0 -" | "pb 0 3" | "pe 0" | "pf 0" | "po") {
            inflight_after_local_close = true;
        }
        if local_close_pending && st.contains("close=") {
            let clean_peer = *e == "pc";
            if clean_peer && !st.contains("close=ok") {
                let class = if inflight_after_local_close { "clean-close-inflight" } else { "clean-close" };
                v.push(format!("{}: close() after a clean close exchange returned {}", class, st));
            }
            if *e == "pce" && !st.contains("close=err:RemoteClosedWithError") {
                v.push(format!("peer-error: the peer closed with an error but close() returned {}", st));
            }
            local_close_pending = false;
        }
        if st.contains("PANIC") {
            v.push(format!("panic: a task panicked at step {}", i));
        }
    }
    // grammar: H, then O, then anything but H/O, at most one close which is last
    if let Some(first) = wire.first() {
        if first != "H" {
            v.push(format!("grammar: first thing written is {}", first));
        }
    }
    if wire.len() >= 2 && wire[1] != "O" {
        v.push(format!("grammar: {} written before the open", wire[1]));
    }
    if wire.iter().filter(|t| *t == "O").count() > 1 || wire.iter().filter(|t| *t == "H").count() > 1 {
        v.push("grammar: header or open written twice".into());
    }
    if wire.iter().filter(|t| t.starts_with('C')).count() > 1 {
        v.push("grammar: more than one close".into());
    }
    v
}

pub fn run(seed: u64, n: u64, thorough: bool, corpus: &[String], dir: &str) {
    crate::codec::quiet_panics();
    let mut out = Outputs::new(dir);
    let mut r = Rng::new(seed);
    let mut scripts: Vec<String> = Vec::new();
    for l in corpus {
        if let Some(s) = l.strip_prefix("c12 ") {
            out.count("corpus_cases");
            scripts.push(s.to_string());
        }
    }
    for _ in 0..n {
        scripts.push(gen_script(&mut r, if thorough { 9 } else { 6 }));
    }
    // raw frames on an open connection, each followed by what a peer may do next
    for (hx, _) in wire_frames() {
        for follow in ["", " ; pc", " ; pce", " ; eof", " ; close", " ; pz ; close"] {
            scripts.push(format!("open ; ph ; po ; pw {}{}", hx, follow));
        }
        // ... and while the local close is under way / in the discarding state
        scripts.push(format!("open ; ph ; po ; close ; pw {} ; pc", hx));
        scripts.push(format!("open ; ph ; po ; pf 0 ; pw {} ; pc", hx));
    }
    out.add("raw_frame_scripts", (wire_frames().len() * 8) as u64);
    if thorough {
        // all scripts of length <= 3 after `open ; ph ; po`, and of length <= 3 from scratch over a smaller alphabet
        let small = ["open", "ph", "po", "pc", "pce", "pf 0", "eof", "close", "closee", "pz"];
        for a in small.iter() {
            for b in small.iter() {
                for c in small.iter() {
                    scripts.push(format!("open ; ph ; po ; {} ; {} ; {}", a, b, c));
                    scripts.push(format!("{} ; {} ; {}", a, b, c));
                }
            }
        }
        out.add("enumerated_scripts", 2000);
    }
    for s in scripts {
        let line = format!("c12 {}", s);
        let t = run_script(&s);
        for ev in s.split(';') {
            out.count(&format!("ev_{}", ev.trim().split_whitespace().next().unwrap_or("?")));
        }
        if t.contains("open=ok") && (t.contains("close=") || t.contains("stopped=")) {
            out.nontrivial(&line);
        }
        for v in direct_oracle(&s, &t) {
            let class = v.split(':').next().unwrap_or("?").to_string();
            out.violation(&format!("c12-{}", class), &format!("c12-{} | script `{}` -> {}", v, s, t), &line);
        }
        out.case(&line, &t);
    }
    out.finish(dir);
}
