//! C08: sender link credit arithmetic (sub `c08`) and the wake-up race (sub `c08w`).
use crate::out::*;
use crate::rng::Rng;
use fe2o3_amqp::verif::{VLinkFlow, VLinkFlowState};

#[derive(Clone, Debug)]
pub enum Ev {
    /// dc credit avail drain echo
    F(Option<u32>, Option<u32>, Option<u32>, bool, bool),
    S,
    /// the non-waiting TryConsume::try_consume
    T,
}

#[derive(Clone, Debug)]
pub struct Case {
    pub init_dc: u32,
    pub evs: Vec<Ev>,
}

impl Case {
    pub fn line(&self) -> String {
        let evs: Vec<String> = self
            .evs
            .iter()
            .map(|e| match e {
                Ev::F(dc, cr, av, drain, echo) => format!(
                    "F {} {} {} {} {}",
                    opt_u32(*dc),
                    opt_u32(*cr),
                    opt_u32(*av),
                    b(*drain),
                    b(*echo)
                ),
                Ev::S => "S".to_string(),
                Ev::T => "T".to_string(),
            })
            .collect();
        format!("c08 {} | {}", self.init_dc, evs.join(" ; "))
    }
    pub fn parse(line: &str) -> Option<Case> {
        let rest = line.strip_prefix("c08 ")?;
        let mut parts = rest.splitn(2, '|');
        let init_dc = parts.next()?.trim().parse().ok()?;
        let mut evs = Vec::new();
        for e in parts.next().unwrap_or("").split(';') {
            let w: Vec<&str> = e.split_whitespace().collect();
            match w.as_slice() {
                [] => {}
                ["F", dc, cr, av, drain, echo] => evs.push(Ev::F(
                    parse_opt_u32(dc),
                    parse_opt_u32(cr),
                    parse_opt_u32(av),
                    *drain == "1",
                    *echo == "1",
                )),
                ["S"] => evs.push(Ev::S),
                ["T"] => evs.push(Ev::T),
                _ => return None,
            }
        }
        Some(Case { init_dc, evs })
    }
}

fn flow_str(f: &Option<VLinkFlow>) -> String {
    match f {
        None => "-".to_string(),
        Some(f) => format!(
            "[{} {} {} {} {}]",
            opt_u32(f.delivery_count),
            opt_u32(f.link_credit),
            opt_u32(f.available),
            b(f.drain),
            b(f.echo)
        ),
    }
}

pub fn run_case(c: &Case) -> (String, Vec<String>) {
    let mut viol = Vec::new();
    let st = VLinkFlowState::new(true, c.init_dc, c.init_dc, 0);
    // specification side: the receiver's latest limit
    let mut base = c.init_dc;
    let mut limit: u32 = 0;
    let mut trace = String::new();
    for e in &c.evs {
        match e {
            Ev::F(dc, cr, av, drain, echo) => {
                let before = st.counters();
                let reply = st.on_incoming_flow(
                    VLinkFlow {
                        handle: 0,
                        delivery_count: *dc,
                        link_credit: *cr,
                        available: *av,
                        drain: *drain,
                        echo: *echo,
                    },
                    0,
                );
                if let Some(lc) = cr {
                    base = dc.unwrap_or(c.init_dc);
                    limit = *lc;
                }
                let k = st.counters();
                if *drain {
                    let ok = k.link_credit == 0
                        && matches!(&reply, Some(r) if r.link_credit == Some(0) && r.delivery_count == Some(k.delivery_count) && r.drain);
                    if !ok {
                        viol.push(format!("drain: after a drain flow credit={} reply={:?}", k.link_credit, reply));
                    }
                    // the delivery-count must land exactly on the receiver's limit when the limit was ahead
                    let d = before.delivery_count.wrapping_sub(base);
                    if d <= limit && k.delivery_count != base.wrapping_add(limit) {
                        viol.push(format!(
                            "drain: delivery-count {} after drain, receiver's limit is {}",
                            k.delivery_count,
                            base.wrapping_add(limit)
                        ));
                    }
                } else if *echo {
                    if reply.is_none() {
                        viol.push("echo: no reply to an echo request".into());
                    }
                } else if reply.is_some() {
                    viol.push("echo: unsolicited flow".into());
                }
                trace.push_str(&format!("R {}", flow_str(&reply)));
            }
            Ev::T => {
                // the non-waiting path (TryConsume::try_consume, used when a transaction is rolled back on drop): either one
                // credit is taken exactly as by a send, or nothing changes
                let before = st.counters();
                match st.sender_try_consume_now(1) {
                    Ok(tag) => {
                        let t = u32::from_be_bytes(tag);
                        if t.wrapping_sub(base) >= limit {
                            viol.push(format!("credit-overrun: try_consume took delivery-count {}, receiver's limit is [{} , +{})", t, base, limit));
                        }
                        let k = st.counters();
                        if t != before.delivery_count || k.delivery_count != before.delivery_count.wrapping_add(1) || k.link_credit != before.link_credit.wrapping_sub(1) {
                            viol.push("one-credit: try_consume did not consume exactly one credit".into());
                        }
                        trace.push_str(&format!("T {}", t));
                    }
                    Err(_) => {
                        let k = st.counters();
                        if k.delivery_count != before.delivery_count || k.link_credit != before.link_credit {
                            viol.push(format!(
                                "one-credit: a refused try_consume changed the link state (delivery-count {} -> {}, credit {} -> {})",
                                before.delivery_count, k.delivery_count, before.link_credit, k.link_credit
                            ));
                        }
                        trace.push_str("TFAIL");
                    }
                }
            }
            Ev::S => {
                let before = st.counters();
                match st.sender_try_consume(1) {
                    Some(tag) => {
                        let t = u32::from_be_bytes(tag);
                        if t.wrapping_sub(base) >= limit {
                            viol.push(format!(
                                "credit-overrun: delivery with delivery-count {} sent, receiver's limit is [{} , +{})",
                                t, base, limit
                            ));
                        }
                        let k = st.counters();
                        if t != before.delivery_count
                            || k.delivery_count != before.delivery_count.wrapping_add(1)
                            || k.link_credit != before.link_credit.wrapping_sub(1)
                        {
                            viol.push("one-credit: a delivery did not consume exactly one credit".into());
                        }
                        trace.push_str(&format!("S {}", t));
                    }
                    None => {
                        if before.delivery_count.wrapping_sub(base) < limit {
                            viol.push(format!(
                                "credit-starved: send refused at delivery-count {} although the limit is [{} , +{})",
                                before.delivery_count, base, limit
                            ));
                        }
                        trace.push_str("WAIT");
                    }
                }
            }
        }
        let k = st.counters();
        trace.push_str(&format!(
            " # dc={} credit={} avail={} drain={} ; ",
            k.delivery_count,
            k.link_credit,
            k.available,
            b(k.drain)
        ));
    }
    (trace, viol)
}

fn near_wrap(r: &mut Rng) -> u32 {
    match r.below(4) {
        0 => 0,
        1 => u32::MAX - (r.below(100) as u32),
        2 => r.below(100) as u32,
        _ => r.next() as u32,
    }
}

pub fn gen_case(r: &mut Rng, max_len: u64) -> Case {
    let init_dc = near_wrap(r);
    let n = r.range(1, max_len);
    let mut evs = Vec::new();
    let mut sent: u32 = 0;
    for _ in 0..n {
        if r.chance(10, 100) {
            evs.push(Ev::T);
            sent = sent.wrapping_add(1);
        } else if r.chance(50, 90) {
            evs.push(Ev::S);
            sent = sent.wrapping_add(1);
        } else {
            let dc = match r.below(10) {
                0 => None,
                1 => Some(r.next() as u32),
                _ => {
                    let back = if sent == 0 { 0 } else { r.below((sent.min(6)) as u64 + 1) as u32 };
                    Some(init_dc.wrapping_add(sent.min(1000)).wrapping_sub(back))
                }
            };
            let cr = match r.below(10) {
                0 => None,
                _ => Some(*r.pick(&[0u32, 0, 1, 1, 2, 3, 5, 10, 200, u32::MAX])),
            };
            let av = if r.chance(1, 3) { Some(r.below(5) as u32) } else { None };
            evs.push(Ev::F(dc, cr, av, r.chance(1, 8), r.chance(1, 5)));
        }
    }
    Case { init_dc, evs }
}

pub fn run(seed: u64, n: u64, thorough: bool, corpus: &[String], dir: &str) {
    let mut out = Outputs::new(dir);
    let mut r = Rng::new(seed);
    let do_case = |c: Case, out: &mut Outputs| {
        let line = c.line();
        let (trace, viol) = run_case(&c);
        for e in &c.evs {
            match e {
                Ev::S => out.count("ev_send"),
                Ev::T => out.count("ev_try_consume"),
                Ev::F(_, _, _, true, _) => out.count("ev_flow_drain"),
                Ev::F(None, ..) => out.count("ev_flow_unset_dc"),
                Ev::F(_, None, ..) => out.count("ev_flow_unset_credit"),
                Ev::F(..) => out.count("ev_flow"),
            }
        }
        if trace.contains("S ") && trace.contains("WAIT") {
            out.nontrivial(&line);
        }
        if c.init_dc > u32::MAX - 200 {
            out.count("cases_dc_near_wrap");
        }
        for v in viol {
            let class = format!("c08-{}", v.split(':').next().unwrap_or("?"));
            out.violation(&class, &v, &line);
        }
        out.case(&line, &trace);
    };
    for l in corpus {
        if let Some(c) = Case::parse(l) {
            out.count("corpus_cases");
            do_case(c, &mut out);
        }
    }
    for _ in 0..n {
        let c = gen_case(&mut r, if thorough { 60 } else { 30 });
        do_case(c, &mut out);
    }
    // the wake-up of a pending send by flows of every shape (direct oracle only: no case lines for the model)
    wake_cases(&mut out);
    out.finish(dir);
}

/// Multi-threaded stress of the wake-up protocol on the real consumer/producer pair.
/// One iteration: credit 0, one task awaits `consume(1)`, another applies one grant
/// of credit 1 after a rendezvous; a consume still pending long after the grant while
/// the credit is there, and which an extra notify_waiters() releases, is a lost wake-up.
/// Deterministic wake-up cases (single-threaded runtime, paused clock): a consume(1) is pending, then ONE flow of a given
/// shape is produced; whenever the flow leaves the link with credit >= 1 the pending consume must complete (direct oracle,
/// class c08-blocked-send-not-woken).  Covers every combination of echo / drain / delivery-count / credit - the grant that is
/// also *answered* (echo) included.
pub fn wake_cases(out: &mut Outputs) {
    use fe2o3_amqp::verif::VLinkFlow;
    let rt = tokio::runtime::Builder::new_current_thread().enable_all().start_paused(true).build().unwrap();
    for echo in [false, true] {
        for drain in [false, true] {
            for dc in [None, Some(0u32)] {
                for cr in [Some(1u32), Some(3), Some(0), None] {
                    let line = format!("c08wake echo={} drain={} dc={:?} credit={:?}", echo as u8, drain as u8, dc, cr);
                    let (woken, credit_after) = rt.block_on(async {
                        let (consumer, mut producer) = fe2o3_amqp::verif::wake_pair(0);
                        let consumer = std::sync::Arc::new(consumer);
                        let c2 = consumer.clone();
                        let waiter = tokio::spawn(async move { c2.consume(1).await });
                        tokio::time::sleep(std::time::Duration::from_millis(1)).await;
                        let before = consumer.counters().link_credit;
                        let _ = producer.produce(VLinkFlow { handle: 0, delivery_count: dc, link_credit: cr, available: None, drain, echo }).await;
                        // what the flow left on the link, read before the waiter may take it
                        let after_flow = consumer.counters().link_credit;
                        tokio::time::sleep(std::time::Duration::from_millis(5)).await;
                        let woken = waiter.is_finished();
                        waiter.abort();
                        let _ = before;
                        (woken, after_flow)
                    });
                    out.count("wake_cases");
                    if credit_after >= 1 && !woken {
                        out.violation(
                            "c08-blocked-send-not-woken",
                            &format!("c08-blocked-send-not-woken: a send waiting for credit was not woken by a flow that left link-credit {} ({})", credit_after, line),
                            &line,
                        );
                    }
                    if credit_after >= 1 {
                        out.nontrivial(&line);
                    }
                }
            }
        }
    }
}

pub fn run_wake(seed: u64, secs: u64, dir: &str) {
    use std::sync::atomic::{AtomicUsize, Ordering};
    use std::sync::Arc;
    use std::time::{Duration, Instant};
    let mut out = Outputs::new(dir);
    let rt = tokio::runtime::Builder::new_multi_thread()
        .worker_threads(4)
        .enable_all()
        .build()
        .unwrap();
    let mut r = Rng::new(seed);
    let (iters, lost, first) = rt.block_on(async move {
        let (consumer, mut producer) = fe2o3_amqp::verif::wake_pair(0);
        let consumer = Arc::new(consumer);
        let start = Instant::now();
        let mut iters = 0u64;
        let mut lost = 0u64;
        let mut first: Option<u64> = None;
        while start.elapsed() < Duration::from_secs(secs) && lost < 3 {
            iters += 1;
            consumer.set_link_credit(0);
            let dc = consumer.counters().delivery_count;
            let gate = Arc::new(AtomicUsize::new(0));
            let jitter = r.below(64) as u32;
            let who = r.chance(1, 2);
            let c2 = consumer.clone();
            let g1 = gate.clone();
            let mut ctask = tokio::spawn(async move {
                g1.fetch_add(1, Ordering::SeqCst);
                let mut spins = 0u32;
                while g1.load(Ordering::SeqCst) < 2 {
                    std::hint::spin_loop();
                    spins += 1;
                    if spins > 200_000 { tokio::task::yield_now().await; spins = 0; }
                }
                if who { for _ in 0..jitter { std::hint::spin_loop(); } }
                c2.consume(1).await
            });
            let g2 = gate.clone();
            let ptask = tokio::spawn(async move {
                g2.fetch_add(1, Ordering::SeqCst);
                let mut spins = 0u32;
                while g2.load(Ordering::SeqCst) < 2 {
                    std::hint::spin_loop();
                    spins += 1;
                    if spins > 200_000 { tokio::task::yield_now().await; spins = 0; }
                }
                if !who { for _ in 0..jitter { std::hint::spin_loop(); } }
                producer
                    .produce(VLinkFlow { handle: 0, delivery_count: Some(dc), link_credit: Some(1), available: None, drain: false, echo: false })
                    .await;
                producer
            });
            producer = ptask.await.unwrap();
            match tokio::time::timeout(Duration::from_millis(300), &mut ctask).await {
                Ok(_) => {}
                Err(_) => {
                    // rule out a scheduling stall, then confirm that the task is parked on the Notify
                    let again = tokio::time::timeout(Duration::from_millis(700), &mut ctask).await;
                    if again.is_err() && consumer.counters().link_credit >= 1 {
                        lost += 1;
                        if first.is_none() { first = Some(iters); }
                        consumer.notify_waiters();
                        let _ = tokio::time::timeout(Duration::from_secs(2), &mut ctask).await;
                    }
                }
            }
        }
        (iters, lost, first)
    });
    out.add("wake_iterations", iters);
    out.add("wake_lost", lost);
    let line = format!("c08w seed={} secs={}", seed, secs);
    if lost > 0 {
        out.violation(
            "c08-lost-wakeup",
            &format!(
                "c08-lost-wakeup: consume(1) stayed pending with link_credit >= 1 after produce() returned ({} times in {} iterations, first at iteration {:?}); an extra notify_waiters() released it",
                lost, iters, first
            ),
            &line,
        );
    }
    out.nontrivial(&line);
    out.nontrivial(&format!("{} iterations", iters));
    out.case(&line, &format!("iterations={} lost={}", iters, lost));
    out.finish(dir);
}
