//! C13: session and sender-link lifecycles against a scripted peer.
//!
//! The connection is opened in the prelude (header and open exchanged).  Script events:
//!   local: `begin` `att` (attach a sender named "s") `send` `det` `cls` `dropl` `abortl`
//!          `end` `ende` `drops` `aborts`
//!   peer:  `pb` (begin answering channel 0 on its channel 0) `pa` (attach answering "s" with its handle 3)
//!          `pflow` (credit 10) `pacc` (accept+settle delivery 0..) `pd` (detach, not closed) `pdc` (closed)
//!          `pde` (closed with error) `pe` `pee` (end with error) `pa2` (attach for an unknown link name)
//!          `pfu` (flow for an unattached handle)
//! Receiving link: `attr` attaches a receiver named "s" (credit mode Auto(2), auto-accept) instead of a sender; the
//!   peer's `pa` then answers with a sender-role attach, `pt` is one small complete unsettled message for the link
//!   (delivery-id/tag 0,1,..), `recv` a `Receiver::recv()` (results `recv=ok`, `recv=err:<variant>`); `det` `cls` `dropl`
//!   `abortl` `pd` `pdc` `pde` as for the sender.
//! One event per quiescence barrier.  Observed per step: the frames written (tokens of eng.rs) and the API
//! calls that completed.
use crate::c12::{peer_begin, peer_end, peer_open};
use crate::eng::*;
use crate::out::*;
use crate::rng::Rng;
use fe2o3_amqp::session::SessionHandle;
use fe2o3_amqp::types::definitions::{self, AmqpError, ReceiverSettleMode, Role, SenderSettleMode};
use fe2o3_amqp::types::messaging::{Accepted, DeliveryState, Source, Target};
use fe2o3_amqp::link::receiver::CreditMode;
use fe2o3_amqp::types::performatives::{Attach, Detach, Disposition, Flow, Performative, Transfer};
use fe2o3_amqp::types::primitives::{Binary, Value};
use fe2o3_amqp::{Connection, Receiver, Sender, Session};
use tokio::task::JoinHandle;

const PEER_HANDLE: u32 = 3;

fn variant(s: &str) -> String {
    // keep the outer variant and one level of nesting: Local(IllegalState) etc.
    let mut depth = 0;
    let mut out = String::new();
    for c in s.chars() {
        match c {
            '(' | '{' => {
                depth += 1;
                if depth > 2 {
                    break;
                }
                out.push('(');
            }
            ' ' | ',' if depth >= 1 => break,
            ')' | '}' => break,
            _ => out.push(c),
        }
    }
    let opens = out.matches('(').count();
    for _ in 0..opens {
        out.push(')');
    }
    out.replace("()", "")
}

fn peer_attach_receiver(name: &str) -> Performative {
    Performative::Attach(Attach {
        name: name.into(),
        handle: PEER_HANDLE.into(),
        role: Role::Receiver,
        snd_settle_mode: SenderSettleMode::Mixed,
        rcv_settle_mode: ReceiverSettleMode::First,
        source: Some(Box::new(Source::builder().address("q").build())),
        target: Some(Box::new(Target::builder().address("q").build().into())),
        unsettled: None,
        incomplete_unsettled: false,
        initial_delivery_count: None,
        max_message_size: None,
        offered_capabilities: None,
        desired_capabilities: None,
        properties: None,
    })
}
fn peer_attach_sender(name: &str) -> Performative {
    match peer_attach_receiver(name) {
        Performative::Attach(mut a) => {
            a.role = Role::Sender;
            a.initial_delivery_count = Some(0);
            Performative::Attach(a)
        }
        p => p,
    }
}
fn peer_detach(closed: bool, err: bool) -> Performative {
    Performative::Detach(Detach {
        handle: PEER_HANDLE.into(),
        closed,
        error: if err { Some(definitions::Error::new(AmqpError::InternalError, Some("peer".into()), None)) } else { None },
    })
}
fn peer_link_flow(handle: u32, credit: u32) -> Performative {
    Performative::Flow(Flow {
        next_incoming_id: Some(0),
        incoming_window: 1000,
        next_outgoing_id: 0,
        outgoing_window: 1000,
        handle: Some(handle.into()),
        delivery_count: Some(0),
        link_credit: Some(credit),
        available: None,
        drain: false,
        echo: false,
        properties: None,
    })
}

/// the link under test: a sender (`att`) or a receiver (`attr`)
enum Lk {
    S(Sender),
    R(Receiver),
}

fn peer_transfer(k: u32) -> Performative {
    Performative::Transfer(Transfer {
        handle: PEER_HANDLE.into(),
        delivery_id: Some(k),
        delivery_tag: Some(Binary::from(k.to_be_bytes().to_vec())),
        message_format: Some(0),
        settled: Some(false),
        more: false,
        rcv_settle_mode: None,
        state: None,
        resume: false,
        aborted: false,
        batchable: false,
    })
}

enum Slot<T> {
    None,
    Have(T),
    Busy(JoinHandle<(Option<T>, String)>),
}

pub fn run_script(script: &str) -> String {
    let evs: Vec<String> = script.split(';').map(|s| s.trim().to_string()).filter(|s| !s.is_empty()).collect();
    paused_rt().block_on(async move {
        let (a, b) = tokio::io::duplex(1 << 20);
        let mut peer = Peer::new(b);
        let open_task = tokio::spawn(async move { Connection::builder().container_id("c").max_frame_size(4096u32).open_with_stream(a).await });
        barrier().await;
        peer.write(&AMQP_HEADER).await;
        peer.write(&frame_bytes(0, &peer_open(None, 10, 4096), &[])).await;
        barrier().await;
        let mut conn = match open_task.await {
            Ok(Ok(c)) => Some(c),
            _ => return "PRELUDE-FAILED open".to_string(),
        };
        let _ = peer.drain().await;
        let mut begin_task: Option<JoinHandle<(fe2o3_amqp::connection::ConnectionHandle<()>, Result<SessionHandle<()>, String>)>> = None;
        let mut second = false; // the begin in progress is that of the second session (`begin2`)
        let mut sess2: Vec<SessionHandle<()>> = Vec::new();
        let mut sess: Slot<SessionHandle<()>> = Slot::None;
        let mut att_task: Option<JoinHandle<(SessionHandle<()>, Result<Lk, String>)>> = None;
        let mut link: Slot<Lk> = Slot::None;
        let mut delivered: u32 = 0;
        let mut receiver_role = false; // the link under test is a receiver: the peer plays the sender
        let mut transferred: u32 = 0;
        let mut out = String::new();
        for ev in &evs {
            match ev.as_str() {
                "begin" => {
                    if begin_task.is_none() && matches!(sess, Slot::None) {
                        if let Some(mut c) = conn.take() {
                            begin_task = Some(tokio::spawn(async move {
                                let r = Session::begin(&mut c).await.map_err(|e| variant(&format!("{:?}", e)));
                                (c, r)
                            }));
                        }
                    }
                }
                "begin2" => {
                    // a second session on the same connection, whatever the first is doing (its handle is kept alive)
                    if begin_task.is_none() {
                        if let Some(mut c) = conn.take() {
                            second = true;
                            begin_task = Some(tokio::spawn(async move {
                                let r = Session::begin(&mut c).await.map_err(|e| variant(&format!("{:?}", e)));
                                (c, r)
                            }));
                        }
                    }
                }
                "att" => {
                    if att_task.is_none() && matches!(link, Slot::None) {
                        if let Slot::Have(_) = sess {
                            if let Slot::Have(mut s) = std::mem::replace(&mut sess, Slot::None) {
                                att_task = Some(tokio::spawn(async move {
                                    let r = Sender::attach(&mut s, "s", "q").await.map(Lk::S).map_err(|e| variant(&format!("{:?}", e)));
                                    (s, r)
                                }));
                            }
                        }
                    }
                }
                "attr" => {
                    if att_task.is_none() && matches!(link, Slot::None) {
                        if let Slot::Have(_) = sess {
                            if let Slot::Have(mut s) = std::mem::replace(&mut sess, Slot::None) {
                                receiver_role = true;
                                att_task = Some(tokio::spawn(async move {
                                    let r = Receiver::builder()
                                        .name("s")
                                        .source("q")
                                        .credit_mode(CreditMode::Auto(2))
                                        .auto_accept(true)
                                        .attach(&mut s)
                                        .await
                                        .map(Lk::R)
                                        .map_err(|e| variant(&format!("{:?}", e)));
                                    (s, r)
                                }));
                            }
                        }
                    }
                }
                "send" | "recv" | "det" | "cls" => {
                    let fits = match &link {
                        Slot::Have(Lk::S(_)) => ev != "recv",
                        Slot::Have(Lk::R(_)) => ev != "send",
                        _ => false,
                    };
                    if fits {
                        match std::mem::replace(&mut link, Slot::None) {
                            Slot::Have(Lk::S(mut l)) => {
                                let what = ev.clone();
                                link = Slot::Busy(tokio::spawn(async move {
                                    match what.as_str() {
                                        "send" => {
                                            let r = l.send("hello").await;
                                            let s = match r {
                                                Ok(o) => format!("send={}", variant(&format!("{:?}", o))),
                                                Err(e) => format!("send=err:{}", variant(&format!("{:?}", e))),
                                            };
                                            (Some(Lk::S(l)), s)
                                        }
                                        "det" => match l.detach().await {
                                            Ok(_d) => (None, "det=ok".to_string()),
                                            Err((_d, e)) => (None, format!("det=err:{}", variant(&format!("{:?}", e)))),
                                        },
                                        _ => match l.close().await {
                                            Ok(()) => (None, "cls=ok".to_string()),
                                            Err(e) => (None, format!("cls=err:{}", variant(&format!("{:?}", e)))),
                                        },
                                    }
                                }));
                            }
                            Slot::Have(Lk::R(mut l)) => {
                                let what = ev.clone();
                                link = Slot::Busy(tokio::spawn(async move {
                                    match what.as_str() {
                                        "recv" => {
                                            let s = match l.recv::<Value>().await {
                                                Ok(_d) => "recv=ok".to_string(),
                                                Err(e) => format!("recv=err:{}", variant(&format!("{:?}", e))),
                                            };
                                            (Some(Lk::R(l)), s)
                                        }
                                        "det" => match l.detach().await {
                                            Ok(_d) => (None, "det=ok".to_string()),
                                            Err((_d, e)) => (None, format!("det=err:{}", variant(&format!("{:?}", e)))),
                                        },
                                        _ => match l.close().await {
                                            Ok(()) => (None, "cls=ok".to_string()),
                                            Err(e) => (None, format!("cls=err:{}", variant(&format!("{:?}", e)))),
                                        },
                                    }
                                }));
                            }
                            _ => {}
                        }
                    }
                }
                "dropl" => {
                    if let Slot::Have(_) = link {
                        link = Slot::None;
                    }
                }
                "abortl" => {
                    if let Slot::Busy(t) = &link {
                        t.abort();
                        link = Slot::None;
                    }
                }
                "end" | "ende" => {
                    if let Slot::Have(_) = sess {
                        if let Slot::Have(mut s) = std::mem::replace(&mut sess, Slot::None) {
                            let with_err = ev == "ende";
                            sess = Slot::Busy(tokio::spawn(async move {
                                let r = if with_err {
                                    s.end_with_error(definitions::Error::new(AmqpError::NotAllowed, None, None)).await
                                } else {
                                    s.end().await
                                };
                                (Some(s), match r { Ok(()) => "end=ok".to_string(), Err(e) => format!("end=err:{}", variant(&format!("{:?}", e))) })
                            }));
                        }
                    }
                }
                "drops" => {
                    if let Slot::Have(_) = sess {
                        sess = Slot::None;
                    }
                }
                "aborts" => {
                    if let Slot::Busy(t) = &sess {
                        t.abort();
                        sess = Slot::None;
                    }
                }
                "pb" => {
                    peer.write(&frame_bytes(0, &peer_begin(Some(0)), &[])).await;
                }
                "par" => {
                    // the peer refuses the link: an attach without target (sender) / source (receiver) and a closing detach at once
                    let mut a = if receiver_role { peer_attach_sender("s") } else { peer_attach_receiver("s") };
                    if let Performative::Attach(at) = &mut a {
                        if receiver_role {
                            at.source = None;
                        } else {
                            at.target = None;
                        }
                    }
                    peer.write(&frame_bytes(0, &a, &[])).await;
                    peer.write(&frame_bytes(0, &peer_detach(true, true), &[])).await;
                }
                "pa" => {
                    if receiver_role {
                        peer.write(&frame_bytes(0, &peer_attach_sender("s"), &[])).await;
                    } else {
                        peer.write(&frame_bytes(0, &peer_attach_receiver("s"), &[])).await;
                    }
                }
                "pt" => {
                    let body = serde_amqp::to_vec(&fe2o3_amqp::types::messaging::message::__private::Serializable(
                        &fe2o3_amqp::types::messaging::Message::builder().value(Value::String("m".into())).build(),
                    ))
                    .unwrap();
                    peer.write(&frame_bytes(0, &peer_transfer(transferred), &body)).await;
                    transferred += 1;
                }
                "pa2" => {
                    peer.write(&frame_bytes(0, &peer_attach_receiver("other"), &[])).await;
                }
                "pflow" => {
                    peer.write(&frame_bytes(0, &peer_link_flow(PEER_HANDLE, 10), &[])).await;
                }
                "pfu" => {
                    peer.write(&frame_bytes(0, &peer_link_flow(9, 10), &[])).await;
                }
                "pacc" => {
                    let d = Disposition {
                        role: Role::Receiver,
                        first: delivered,
                        last: None,
                        settled: true,
                        state: Some(DeliveryState::Accepted(Accepted {})),
                        batchable: false,
                    };
                    delivered += 1;
                    peer.write(&frame_bytes(0, &Performative::Disposition(d), &[])).await;
                }
                "pd" => {
                    peer.write(&frame_bytes(0, &peer_detach(false, false), &[])).await;
                }
                "pdc" => {
                    peer.write(&frame_bytes(0, &peer_detach(true, false), &[])).await;
                }
                "pde" => {
                    peer.write(&frame_bytes(0, &peer_detach(true, true), &[])).await;
                }
                "pe" => {
                    peer.write(&frame_bytes(0, &peer_end(false), &[])).await;
                }
                "pee" => {
                    peer.write(&frame_bytes(0, &peer_end(true), &[])).await;
                }
                _ => panic!("bad life event {}", ev),
            }
            barrier().await;
            let mut obs: Vec<String> = vec![tokens(&peer.drain().await)];
            if let Some(t) = &begin_task {
                if t.is_finished() {
                    match begin_task.take().unwrap().await {
                        Ok((c, r)) => {
                            conn = Some(c);
                            match r {
                                Ok(s) if second => {
                                    second = false;
                                    sess2.push(s);
                                    obs.push("begin2=ok".into());
                                }
                                Ok(s) => {
                                    sess = Slot::Have(s);
                                    obs.push("begin=ok".into());
                                }
                                Err(e) if second => {
                                    second = false;
                                    obs.push(format!("begin2=err:{}", e));
                                }
                                Err(e) => obs.push(format!("begin=err:{}", e)),
                            }
                        }
                        Err(_) => obs.push("begin=PANIC".into()),
                    }
                }
            }
            if let Some(t) = &att_task {
                if t.is_finished() {
                    match att_task.take().unwrap().await {
                        Ok((s, r)) => {
                            sess = Slot::Have(s);
                            match r {
                                Ok(l) => {
                                    link = Slot::Have(l);
                                    obs.push("att=ok".into());
                                }
                                Err(e) => obs.push(format!("att=err:{}", e)),
                            }
                        }
                        Err(_) => obs.push("att=PANIC".into()),
                    }
                }
            }
            if let Slot::Busy(t) = &link {
                if t.is_finished() {
                    if let Slot::Busy(t) = std::mem::replace(&mut link, Slot::None) {
                        match t.await {
                            Ok((l, r)) => {
                                obs.push(r);
                                if let Some(l) = l {
                                    link = Slot::Have(l);
                                }
                            }
                            Err(_) => obs.push("link=PANIC".into()),
                        }
                    }
                }
            }
            if let Slot::Busy(t) = &sess {
                if t.is_finished() {
                    if let Slot::Busy(t) = std::mem::replace(&mut sess, Slot::None) {
                        match t.await {
                            Ok((_s, r)) => obs.push(r),
                            Err(_) => obs.push("sess=PANIC".into()),
                        }
                    }
                }
            }
            if peer.eof {
                obs.push("EOF".into());
            }
            out.push_str(&obs.join(" "));
            out.push_str(" ; ");
        }
        let mut fin = Vec::new();
        if begin_task.is_some() {
            fin.push("begin=PENDING".to_string());
        }
        if att_task.is_some() {
            fin.push("att=PENDING".into());
        }
        if let Slot::Busy(_) = link {
            fin.push("link=PENDING".into());
        }
        match &mut sess {
            Slot::Busy(_) => fin.push("sess=PENDING".into()),
            Slot::Have(s) => {
                if s.is_ended() {
                    let r = tokio::time::timeout(std::time::Duration::from_millis(5), s.on_end()).await;
                    fin.push(match r {
                        Ok(Ok(())) => "ended=ok".into(),
                        Ok(Err(e)) => format!("ended=err:{}", variant(&format!("{:?}", e))),
                        Err(_) => "ended=PENDING".into(),
                    });
                } else {
                    fin.push("sess=running".into());
                }
            }
            Slot::None => {}
        }
        if let Some(c) = &mut conn {
            fin.push(if c.is_closed() { "conn=closed".into() } else { "conn=open".to_string() });
        }
        out.push_str(&format!("# {}", fin.join(" ")));
        out
    })
}

pub fn gen_script(r: &mut Rng, max_len: u64) -> String {
    // The peer stays within the protocol (violations by the peer are C15's business): it answers a begin once,
    // answers an attach once, detaches only a link it has attached, ends only a session it has begun.  Local calls
    // are generated only when the handle they need is free, so that few events are no-ops.
    let mut evs: Vec<&str> = Vec::new();
    let (mut begun, mut pb, mut att, mut pa, mut pdet, mut pend) = (false, false, false, false, false, false);
    let mut sess_free = false; // the session handle is in the application's hands
    let mut link_free = false; // the sender is in the application's hands
    let mut sends_out: u32 = 0; // sends awaiting their outcome
    let mut credit: u32 = 0;
    let n = r.range(3, max_len + 6);
    let mut guard = 0;
    while (evs.len() as u64) < n && guard < 400 {
        guard += 1;
        let e: &str = if !begun {
            "begin"
        } else if !pb && r.below(5) != 0 {
            "pb"
        } else if pb && !att && sess_free && r.below(4) != 0 {
            "att"
        } else if att && !pa && !pend && r.below(4) != 0 {
            if r.below(8) == 0 {
                "par"
            } else {
                "pa"
            }
        } else {
            match r.below(24) {
                0..=3 => "send",
                4..=5 => "pacc",
                6..=7 => "det",
                8..=9 => "cls",
                10..=11 => "end",
                12 => "ende",
                13 => "pdc",
                14 => "pe",
                15 => "pd",
                16 => "pde",
                17 => "pee",
                18 => "dropl",
                19 => "drops",
                20 => "abortl",
                21 => "aborts",
                _ => "pflow",
            }
        };
        let legal = match e {
            "pb" => begun && !pb,
            "att" => pb && !att && sess_free,
            "pa" | "par" => att && !pa && !pend,
            "pflow" => pa && !pdet && !pend,
            "pacc" => pa && !pend && sends_out > 0,
            "pd" | "pdc" | "pde" => pa && !pdet && !pend,
            "pe" | "pee" => pb && !pend,
            "send" => link_free && credit > 0,
            "det" | "cls" | "dropl" => link_free,
            "abortl" => pa && !link_free && att,
            "end" | "ende" | "drops" => sess_free,
            "aborts" => pb && !sess_free,
            _ => true,
        };
        if !legal {
            continue;
        }
        match e {
            "begin" => begun = true,
            "pb" => {
                pb = true;
                sess_free = true;
            }
            "att" => {
                att = true;
                sess_free = false; // held by the attach call until the peer answers
            }
            "pa" => {
                pa = true;
                sess_free = true;
                link_free = true;
            }
            "par" => {
                // refused: the attach call returns an error, the name is free again
                att = false;
                sess_free = true;
            }
            "pflow" => credit = 10,
            "send" => {
                link_free = false;
                sends_out += 1;
                credit -= 1;
            }
            "pacc" => {
                sends_out -= 1;
                link_free = true;
            }
            "det" | "cls" | "dropl" | "abortl" => link_free = false,
            "pd" | "pdc" | "pde" => pdet = true,
            "end" | "ende" | "drops" | "aborts" => sess_free = false,
            "pe" | "pee" => pend = true,
            _ => {}
        }
        evs.push(e);
    }
    evs.join(" ; ")
}

/// the property, checked directly on the trace
pub fn direct_oracle(script: &str, trace: &str) -> Vec<String> {
    let mut v = Vec::new();
    let evs: Vec<&str> = script.split(';').map(|s| s.trim()).filter(|s| !s.is_empty()).collect();
    let body = trace.split('#').next().unwrap_or("");
    let steps: Vec<&str> = body.split(';').map(|s| s.trim()).collect();
    let mut begins = 0;
    let mut ends = 0;
    let mut attaches = 0;
    let mut detaches = 0;
    let mut peer_end_at: Option<usize> = None;
    let mut peer_det_at: Option<(usize, bool)> = None;
    let mut peer_attached = false;
    let mut peer_begun = false;
    let mut answered_detach = false;
    let mut peer_det_err = false;
    let mut det_err_reported = false;
    // receiver-link scripts: the same link clauses, reported under their own class names (c13-r-...)
    let rx = evs.contains(&"attr");
    let lc = |name: &str| if rx { format!("c13-r-{}", name) } else { format!("c13-{}", name) };
    // (receiver scripts) where the link handle is: 0 none yet, 1 with the application, 2 inside recv(), 3 inside
    // detach()/close(), 4 gone
    let mut rx_handle = 0u8;
    // (receiver scripts) a peer detach that arrived before ours was written and still waits for its answer
    let mut rx_unanswered: Option<usize> = None;
    let mut rx_err_pending = false;
    let local_or_peer_end = |upto: usize| evs[..=upto].iter().any(|x| matches!(*x, "end" | "ende" | "drops" | "aborts" | "pe" | "pee"));
    for (i, e) in evs.iter().enumerate() {
        let detaches_before_step = detaches;
        let st = steps.get(i).cloned().unwrap_or("");
        let wire: Vec<&str> = st.split_whitespace().next().map(|t| if t.contains('=') || t == "EOF" { vec![] } else { t.split(',').collect() }).unwrap_or_default();
        for t in &wire {
            let t = *t;
            if t.is_empty() {
                continue;
            }
            let kind = &t[..1];
            if ends > 0 && matches!(kind, "B" | "A" | "D" | "E" | "T" | "F" | "P") && !(kind == "E") {
                v.push(format!("c13-after-end: {} written on the channel after the end (step {})", t, i));
            }
            match kind {
                "B" => {
                    begins += 1;
                    if begins > 1 {
                        v.push("c13-second-begin: more than one begin".into());
                    }
                }
                "E" => {
                    ends += 1;
                    if ends > 1 {
                        v.push(format!("c13-second-end: more than one end (step {})", i));
                    }
                }
                "A" => attaches += 1,
                "D" => {
                    detaches += 1;
                    if detaches > attaches {
                        v.push(format!("{}: more detaches than attaches (step {})", lc("second-detach"), i));
                    }
                }
                "T" | "F" if t.contains('h') => {
                    if detaches >= attaches && attaches > 0 {
                        v.push(format!("{}: {} written for the handle after the detach (step {})", lc("after-detach"), t, i));
                    }
                }
                "P" if rx => {
                    if detaches >= attaches && attaches > 0 {
                        v.push(format!("c13-r-after-detach: {} written for the link after the detach (step {})", t, i));
                    }
                }
                _ => {}
            }
        }
        // the peer refuses the attach (attach without terminus + closing detach): its detach is answered with a closing
        // detach in the same step and attach() returns an error
        if *e == "par" && attaches > detaches_before_step && ends == 0 {
            let answered = wire.iter().any(|t| t.starts_with('D') && t.ends_with('c'));
            if !answered || !st.contains("att=err") {
                v.push(format!("c13-refused-attach-unanswered: the peer refused the attach at step {} (closing detach): answered with a closing detach: {}, attach() returned an error: {} ({})", i, answered, st.contains("att=err"), st));
            }
            // ... and the error it returns is the one the peer's closing detach carried (amqp:internal-error here)
            if st.contains("att=err") && !st.contains("att=err:RemoteClosedWithError") {
                v.push(format!("c13-refused-attach-error-lost: the peer refused the attach at step {} with a closing detach carrying an error; attach() returned another error ({})", i, st));
            }
        }
        match *e {
            "pb" => peer_begun = begins > 0 && ends == 0 || peer_begun,
            "pa" => peer_attached = attaches > detaches || peer_attached,
            "pe" | "pee" => {
                if peer_begun && begins > 0 && peer_end_at.is_none() {
                    peer_end_at = Some(i);
                    // answered in the same step unless we had already ended
                    if ends == 0 {
                        v.push(format!("c13-end-unanswered: the peer's end (step {}) was not answered with an end", i));
                    }
                }
            }
            "pd" | "pdc" | "pde" => {
                if peer_attached && peer_det_at.is_none() && attaches > 0 && ends == 0 {
                    peer_det_at = Some((i, *e != "pd"));
                }
            }
            _ => {}
        }
        // the enclosing connection is never torn down by session/link operations or by a peer end/detach
        if st.contains("EOF") || wire.iter().any(|t| t.starts_with('C')) {
            if !evs[..=i].iter().any(|x| matches!(*x, "pa2" | "pfu")) {
                v.push(format!("c13-connection-torn-down: the connection was closed at step {} ({})", i, st));
            }
        }
        if st.contains("PANIC") {
            v.push(format!("c13-panic: a task panicked at step {}", i));
        }
        // a peer's detach is answered in kind: closing with closing
        if let Some((at, closing)) = peer_det_at {
            if i >= at && !answered_detach {
                for t in &wire {
                    if t.starts_with('D') {
                        answered_detach = true;
                        if closing && !t.ends_with('c') && !t.contains("c" ) {
                            v.push(format!("{}: the peer closed the link (step {}) but the answer {} (step {}) is a non-closing detach", lc("detach-kind"), at, t, i));
                        }
                    }
                }
            }
        }
        // no transfer for a link the peer has detached
        if let Some((at, _)) = peer_det_at {
            if i > at && wire.iter().any(|t| t.starts_with('T')) && ends == 0 {
                v.push(format!("c13-transfer-after-remote-detach: a transfer was written at step {} although the peer detached the link at step {}", i, at));
            }
        }
        // ... and the error it carried is what the caller of the next link operation gets (a call that is pending
        // when the detach arrives completes in that very step: it is that next operation)
        if *e == "pde" && peer_attached && attaches > detaches_before_step {
            peer_det_err = true;
        }
        if peer_det_err && !det_err_reported && !rx {
            for tok in st.split_whitespace() {
                // the clause is about detach() / close(), and about a send() that takes the peer's detach in; a send()
                // whose pending outcome is failed by the closing detach (LinkStateError(IllegalState)) has not looked at
                // the detach: the error is then due at the next operation (the send()'s own error is judged by C14)
                let consumed_by_send = tok.starts_with("send=") && tok.contains("Remote");
                if consumed_by_send || tok.starts_with("det=") || tok.starts_with("cls=") {
                    det_err_reported = true;
                    if !tok.contains("RemoteClosedWithError") && ends == 0 {
                        v.push(format!("c13-peer-detach-error-lost: the peer closed the link with an error but the call returned {}", tok));
                    }
                }
            }
        }
        if rx {
            let toks: Vec<&str> = st.split_whitespace().collect();
            let result = |p: &str| toks.iter().find(|t| t.starts_with(p)).cloned();
            // the session is not brought down by the link
            if wire.iter().any(|t| t.starts_with('E')) && !local_or_peer_end(i) {
                v.push(format!("c13-r-session-torn-down: the session was ended at step {} ({}) although neither side ended it", i, st));
            }
            // which operation runs in this step: one that starts now, or a pending one that completes now
            let mut ran: Option<&str> = None;
            match *e {
                "recv" | "det" | "cls" if rx_handle == 1 => {
                    ran = Some(*e);
                    rx_handle = if *e == "recv" { 2 } else { 3 };
                }
                "dropl" if rx_handle == 1 => {
                    ran = Some("drop");
                    rx_handle = 4;
                }
                "abortl" if rx_handle == 2 || rx_handle == 3 => {
                    ran = Some("drop");
                    rx_handle = 4;
                }
                _ => {}
            }
            // a peer detach that arrives before ours has been written needs an answer
            if matches!(*e, "pd" | "pdc" | "pde") && peer_attached && attaches > detaches_before_step && ends == 0 && rx_unanswered.is_none() {
                rx_unanswered = Some(i);
            }
            if *e == "pde" && peer_attached && attaches > 0 && ends == 0 && rx_handle != 4 {
                rx_err_pending = true;
            }
            if rx_handle == 2 && result("recv=").is_some() {
                ran = ran.or(Some("recv"));
            }
            if detaches > detaches_before_step {
                rx_unanswered = None;
            }
            if ends > 0 {
                // nothing can be written on the channel after the end
                rx_unanswered = None;
            }
            if let (Some(at), Some(op)) = (rx_unanswered, ran) {
                if result("recv=ok").is_some() {
                    v.push(format!("c13-r-detach-behind-transfer: the peer's detach (step {}) is not answered by the application's next operation: recv() (step {}) returned a delivery queued before it", at, i));
                } else {
                    v.push(format!("c13-r-detach-unanswered: the peer's detach (step {}) is not answered by the application's next operation {} (step {})", at, op, i));
                }
                rx_unanswered = None;
            }
            // the error carried by the peer's detach is what the first call that ends otherwise than with a delivery reports
            if rx_err_pending && ends == 0 {
                if let Some(tok) = toks.iter().find(|t| (t.starts_with("recv=") && **t != "recv=ok") || t.starts_with("det=") || t.starts_with("cls=")) {
                    rx_err_pending = false;
                    if !tok.contains("RemoteClosedWithError") {
                        v.push(format!("c13-r-peer-detach-error-lost: the peer closed the link with an error but the call returned {}", tok));
                    }
                }
            }
            if result("att=ok").is_some() {
                rx_handle = 1;
            }
            if result("recv=").is_some() && rx_handle == 2 {
                rx_handle = 1;
            }
            if (result("det=").is_some() || result("cls=").is_some()) && rx_handle == 3 {
                rx_handle = 4;
            }
        }
        // the caller gets the peer's error
        if (*e == "pee") && st.split_whitespace().any(|t| t.starts_with("end=") && !t.contains("RemoteEndedWithError")) {
            v.push(format!("c13-peer-error-lost: the peer ended with an error but end() returned {}", st));
        }
    }
    let _ = (peer_end_at, peer_det_at);
    v
}

/// session-only scripts, compared with the Coq model step by step (tag `lifem`)
pub fn run_model(seed: u64, n: u64, thorough: bool, corpus: &[String], dir: &str) {
    crate::codec::quiet_panics();
    let mut out = Outputs::new(dir);
    let mut r = Rng::new(seed);
    let mut scripts: Vec<String> = Vec::new();
    for l in corpus {
        if let Some(s) = l.strip_prefix("lifem ") {
            out.count("corpus_cases");
            scripts.push(s.to_string());
        }
    }
    let alphabet = ["end", "ende", "drops", "aborts", "pe", "pee", "pb"];
    // every legal script of length <= 4 (thorough: 6) after `begin`, then random longer ones
    let maxlen = if thorough { 6 } else { 4 };
    let mut stack: Vec<Vec<&str>> = vec![vec!["begin"]];
    while let Some(cur) = stack.pop() {
        scripts.push(cur.join(" ; "));
        if cur.len() <= maxlen {
            for e in alphabet.iter() {
                let pb = cur.contains(&"pb");
                let pend = cur.contains(&"pe") || cur.contains(&"pee");
                let legal = match *e { "pb" => !pb, "pe" | "pee" => pb && !pend, _ => true };
                if legal {
                    let mut nx = cur.clone();
                    nx.push(e);
                    stack.push(nx);
                }
            }
        }
    }
    out.add("enumerated_scripts", scripts.len() as u64);
    for _ in 0..n {
        let mut cur: Vec<&str> = vec!["begin"];
        let len = r.range(3, 12);
        let mut guard = 0;
        while (cur.len() as u64) < len && guard < 100 {
            guard += 1;
            let e = *r.pick(&alphabet);
            let pb = cur.contains(&"pb");
            let pend = cur.contains(&"pe") || cur.contains(&"pee");
            let legal = match e { "pb" => !pb, "pe" | "pee" => pb && !pend, _ => true };
            if legal {
                cur.push(e);
            }
        }
        scripts.push(cur.join(" ; "));
    }
    for s in scripts {
        let line = format!("lifem {}", s);
        let t = match std::panic::catch_unwind(|| run_script(&s)) {
            Ok(t) => t,
            Err(_) => "HARNESS-PANIC".to_string(),
        };
        if t.contains("begin=ok") && t.contains("E0") {
            out.nontrivial(&line);
        }
        for v in direct_oracle(&s, &t) {
            let class = v.split(':').next().unwrap_or("?").to_string();
            out.violation(&class, &format!("{} | script `{}` -> {}", v, s, t), &line);
        }
        out.case(&line, &t);
    }
    out.finish(dir);
}

pub fn run(seed: u64, n: u64, thorough: bool, corpus: &[String], dir: &str) {
    crate::codec::quiet_panics();
    let mut out = Outputs::new(dir);
    let mut r = Rng::new(seed);
    let mut scripts: Vec<String> = Vec::new();
    for l in corpus {
        if let Some(s) = l.strip_prefix("life ") {
            out.count("corpus_cases");
            scripts.push(s.to_string());
        }
    }
    for _ in 0..n {
        scripts.push(gen_script(&mut r, if thorough { 10 } else { 7 }));
    }
    for s in scripts {
        let line = format!("life {}", s);
        let t = match std::panic::catch_unwind(|| run_script(&s)) {
            Ok(t) => t,
            Err(_) => "HARNESS-PANIC".to_string(),
        };
        for ev in s.split(';') {
            out.count(&format!("ev_{}", ev.trim()));
        }
        if t.contains("att=ok") && (t.contains("det=") || t.contains("cls=") || t.contains("end=")) {
            out.nontrivial(&line);
        }
        for v in direct_oracle(&s, &t) {
            let class = v.split(':').next().unwrap_or("?").to_string();
            out.violation(&class, &format!("{} | script `{}` -> {}", v, s, t), &line);
        }
        out.case(&line, &t);
    }
    out.finish(dir);
}

// ------------------------------------------------------------------------------------------
// C12: a peer close arriving while session frames are queued behind a blocked transport
// ------------------------------------------------------------------------------------------

/// `lifeq n=<k> pipe=<bytes> size=<payload>`: a sender with credit sends k pre-settled messages while the peer does not
/// read (the pipe fills up, frames queue in the connection's channel); the peer then writes a close and only
/// then starts reading.  Returns the wire tokens after the prelude and what the handles report.
pub fn run_flush_case(line: &str) -> String {
    let w: Vec<&str> = line.split_whitespace().collect();
    let get = |k: &str| -> usize { w.iter().find_map(|x| x.strip_prefix(k)).and_then(|v| v.parse().ok()).unwrap_or(0) };
    let (n, pipe, size) = (get("n="), get("pipe=").max(64), get("size=").max(1));
    paused_rt().block_on(async move {
        let (a, b) = tokio::io::duplex(pipe);
        let mut peer = Peer::new(b);
        let open_task = tokio::spawn(async move { Connection::builder().container_id("c").max_frame_size(4096u32).open_with_stream(a).await });
        // the prelude needs the peer to read: drain after every step
        for _ in 0..4 {
            barrier().await;
            let _ = peer.drain().await;
        }
        peer.write(&AMQP_HEADER).await;
        peer.write(&frame_bytes(0, &peer_open(None, 10, 4096), &[])).await;
        for _ in 0..4 {
            barrier().await;
            let _ = peer.drain().await;
        }
        let mut conn = match open_task.await {
            Ok(Ok(c)) => c,
            _ => return "PRELUDE-FAILED open".to_string(),
        };
        let bt = tokio::spawn(async move {
            let r = Session::begin(&mut conn).await;
            (conn, r)
        });
        for _ in 0..4 {
            barrier().await;
            let _ = peer.drain().await;
        }
        peer.write(&frame_bytes(0, &peer_begin(Some(0)), &[])).await;
        for _ in 0..4 {
            barrier().await;
            let _ = peer.drain().await;
        }
        let (mut conn, mut session) = match bt.await {
            Ok((c, Ok(s))) => (c, s),
            _ => return "PRELUDE-FAILED begin".to_string(),
        };
        let at = tokio::spawn(async move {
            let r = Sender::builder().name("s").target("q").sender_settle_mode(SenderSettleMode::Settled).attach(&mut session).await;
            (session, r)
        });
        for _ in 0..4 {
            barrier().await;
            let _ = peer.drain().await;
        }
        peer.write(&frame_bytes(0, &peer_attach_receiver("s"), &[])).await;
        peer.write(&frame_bytes(0, &peer_link_flow(PEER_HANDLE, 1000), &[])).await;
        for _ in 0..4 {
            barrier().await;
            let _ = peer.drain().await;
        }
        let (mut _session, mut sender) = match at.await {
            Ok((s, Ok(l))) => (s, l),
            _ => return "PRELUDE-FAILED attach".to_string(),
        };
        let how = w.iter().find_map(|x| x.strip_prefix("how=")).unwrap_or("pclose").to_string();
        if how == "end" || how == "ende" {
            // session variant: k pre-settled sends and, without giving the engines a turn in between, the end of the session
            // (with or without an error): everything the link had handed over is written before the end frame
            let with_err = how == "ende";
            let app = tokio::spawn(async move {
                let mut ok = 0;
                for _ in 0..n {
                    if sender.send("x".repeat(size)).await.is_ok() {
                        ok += 1;
                    }
                }
                let r = if with_err {
                    _session.end_with_error(definitions::Error::new(AmqpError::InternalError, None, None)).await
                } else {
                    _session.end().await
                };
                (ok, r.is_ok(), sender)
            });
            let mut toks: Vec<String> = Vec::new();
            let mut answered = false;
            for _ in 0..80 {
                barrier().await;
                let ws = peer.drain().await;
                for wv in &ws {
                    if let Wire::Frame { perf: Performative::End(_), .. } = wv {
                        if !answered {
                            answered = true;
                            peer.write(&frame_bytes(0, &Performative::End(fe2o3_amqp_types::performatives::End { error: None }), &[])).await;
                        }
                    }
                }
                if !ws.is_empty() {
                    toks.push(tokens(&ws));
                }
            }
            let (ok, ended) = if app.is_finished() { app.await.map(|(k, e, _)| (k.to_string(), e)).unwrap_or(("PANIC".into(), false)) } else { ("PENDING".to_string(), false) };
            return format!("{} # sends_ok={} end_ok={}", toks.join(","), ok, ended as u8);
        }
        // the peer stops reading; k sends
        let sends = tokio::spawn(async move {
            let mut ok = 0;
            for _ in 0..n {
                if sender.send("x".repeat(size)).await.is_ok() {
                    ok += 1;
                }
            }
            (sender, ok)
        });
        for _ in 0..6 {
            barrier().await;
        }
        // the peer closes, then reads
        peer.write(&frame_bytes(0, &crate::c12::peer_close(false), &[])).await;
        let mut toks: Vec<String> = Vec::new();
        for _ in 0..40 {
            barrier().await;
            let ws = peer.drain().await;
            if !ws.is_empty() {
                toks.push(tokens(&ws));
            }
        }
        let r = tokio::time::timeout(std::time::Duration::from_millis(50), conn.on_close()).await;
        let res = match r {
            Ok(Ok(())) => "ok".to_string(),
            Ok(Err(e)) => variant(&format!("{:?}", e)),
            Err(_) => "PENDING".to_string(),
        };
        let sent = if sends.is_finished() { sends.await.map(|(_, k)| k.to_string()).unwrap_or("PANIC".into()) } else { "PENDING".to_string() };
        format!("{} # conn={} sends_ok={} eof={}", toks.join(","), res, sent, peer.eof as u8)
    })
}

pub fn flush_oracle(trace: &str) -> Vec<String> {
    let mut v = Vec::new();
    if trace.contains("end_ok=") {
        // session variant: as many transfer frames before the end as sends returned Ok, nothing after the end
        let wire = trace.split('#').next().unwrap_or("").trim();
        let toks: Vec<&str> = wire.split(',').filter(|t| !t.is_empty()).collect();
        let ok: usize = trace.split("sends_ok=").nth(1).and_then(|x| x.split_whitespace().next()).and_then(|x| x.parse().ok()).unwrap_or(usize::MAX);
        match toks.iter().position(|t| t.starts_with('E')) {
            Some(p) => {
                let before = toks[..p].iter().filter(|t| t.starts_with('T')).count();
                if ok != usize::MAX && before < ok {
                    v.push(format!("c13-end-drops-queued-frames: {} pre-settled sends returned Ok before the session was ended, {} transfers were written before the end frame", ok, before));
                }
                if toks[p + 1..].iter().any(|t| t.starts_with('T') || t.starts_with('E')) {
                    v.push(format!("c13-after-end: {} written after the end", toks[p + 1..].join(",")));
                }
            }
            None => v.push("c13-end-not-written: the session was ended, no end frame was written".to_string()),
        }
        return v;
    }
    let wire = trace.split('#').next().unwrap_or("").trim();
    let toks: Vec<&str> = wire.split(',').filter(|t| !t.is_empty()).collect();
    if let Some(p) = toks.iter().position(|t| t.starts_with('C')) {
        if p + 1 != toks.len() {
            v.push(format!("c12-after-close: {} written after the close", toks[p + 1..].join(",")));
        }
    } else {
        v.push("c12-close-unanswered: the peer's close was not answered with a close".to_string());
    }
    if !trace.contains("conn=RemoteClosed") {
        v.push(format!("c12-peer-close-misreported: after the peer's clean close the handle reports {}", trace.split('#').nth(1).unwrap_or("")));
    }
    v
}

pub fn run_flush(dir: &str) {
    crate::codec::quiet_panics();
    let mut out = Outputs::new(dir);
    for n in [1usize, 2, 3, 5, 8, 13] {
        for pipe in [64usize, 128, 256, 1024] {
            for size in [10usize, 100, 700] {
                let line = format!("lifeq n={} pipe={} size={}", n, pipe, size);
                let t = match std::panic::catch_unwind(|| run_flush_case(&line)) {
                    Ok(t) => t,
                    Err(_) => "HARNESS-PANIC".to_string(),
                };
                let frames = t.matches('T').count();
                out.add("transfer_frames_flushed", frames as u64);
                if frames >= 1 {
                    out.nontrivial(&line);
                }
                for vv in flush_oracle(&t) {
                    let class = vv.split(':').next().unwrap_or("?").to_string();
                    out.violation(&class, &format!("{} | `{}` -> {}", vv, line, t), &line);
                }
                out.case(&line, &t);
            }
        }
    }
    for how in ["end", "ende"] {
        for n in [1usize, 3, 10, 30] {
            for size in [10usize, 300] {
                let line = format!("lifeq n={} pipe=65536 size={} how={}", n, size, how);
                let t = match std::panic::catch_unwind(|| run_flush_case(&line)) {
                    Ok(t) => t,
                    Err(_) => "HARNESS-PANIC".to_string(),
                };
                out.add("transfer_frames_before_end", t.matches('T').count() as u64);
                out.nontrivial(&line);
                for vv in flush_oracle(&t) {
                    let class = vv.split(':').next().unwrap_or("?").to_string();
                    out.violation(&class, &format!("{} | `{}` -> {}", vv, line, t), &line);
                }
                out.case(&line, &t);
            }
        }
    }
    out.finish(dir);
}

// ------------------------------------------------------------------------------------------
// sender link scripts compared with the Coq model Link/LinkLife.v (tag `lifel`)
// ------------------------------------------------------------------------------------------

/// legality of the next event given the events so far: the peer stays within the protocol, and the two
/// combinations whose outcome depends on the order in which tokio::select! polls (recorded findings: a local
/// detach()/close() meeting an unseen peer detach of the other kind) are left to the `life` sub
fn link_legal(cur: &[&str], e: &str) -> bool {
    let pa = cur.contains(&"pa");
    let pdet = cur.iter().find(|x| matches!(**x, "pd" | "pdc" | "pde")).cloned();
    let credit = cur.contains(&"pflow");
    // deliveries actually in flight: a send() only starts when the sender is in the application's hands
    let (mut free, mut inflight, mut have_credit) = (false, 0usize, false);
    for x in cur {
        match *x {
            "pa" => free = true,
            "pflow" => {
                if have_credit || !free {
                    // a blocked send goes out now
                }
                if !have_credit && !free && inflight == 0 && cur.contains(&"send") {
                    inflight = 1;
                }
                have_credit = true;
            }
            "send" if free => {
                free = false;
                if have_credit {
                    inflight += 1;
                }
            }
            "pacc" if inflight > 0 => {
                inflight -= 1;
                free = true;
            }
            "det" | "cls" | "dropl" if free => free = false,
            "abortl" => {
                free = false;
                inflight = 0;
            }
            _ => {}
        }
    }
    let (sends, accs) = (inflight, 0usize);
    match e {
        "pa" => !pa,
        "pd" | "pdc" | "pde" => pa && pdet.is_none(),
        "pflow" => pa && pdet.is_none(),
        "pacc" => pa && pdet.is_none() && credit && sends > accs,
        "det" => !matches!(pdet, Some("pdc") | Some("pde")),
        "cls" => !matches!(pdet, Some("pd")),
        _ => true,
    }
}

pub fn run_link_model(seed: u64, n: u64, thorough: bool, corpus: &[String], dir: &str) {
    crate::codec::quiet_panics();
    let mut out = Outputs::new(dir);
    let mut r = Rng::new(seed);
    let mut scripts: Vec<String> = Vec::new();
    for l in corpus {
        if let Some(s) = l.strip_prefix("lifel ") {
            out.count("corpus_cases");
            scripts.push(s.to_string());
        }
    }
    let alphabet = ["pa", "det", "cls", "dropl", "abortl", "pd", "pdc", "pde", "send", "pflow", "pacc"];
    let maxlen = if thorough { 5 } else { 4 };
    let mut stack: Vec<Vec<&str>> = vec![vec!["pa"]];
    while let Some(cur) = stack.pop() {
        scripts.push(cur.join(" ; "));
        if cur.len() < maxlen {
            for e in alphabet.iter() {
                if link_legal(&cur, e) {
                    let mut nx = cur.clone();
                    nx.push(e);
                    stack.push(nx);
                }
            }
        }
    }
    out.add("enumerated_scripts", scripts.len() as u64);
    for _ in 0..n {
        let mut cur: Vec<&str> = vec!["pa"];
        let len = r.range(3, 10);
        let mut guard = 0;
        while (cur.len() as u64) < len && guard < 100 {
            guard += 1;
            let e = match r.below(14) {
                0..=2 => "send",
                3..=4 => "pflow",
                5..=6 => "pacc",
                _ => *r.pick(&alphabet),
            };
            if link_legal(&cur, e) {
                cur.push(e);
            }
        }
        scripts.push(cur.join(" ; "));
    }
    for s in scripts {
        let line = format!("lifel {}", s);
        let full = format!("begin ; pb ; att ; {}", s);
        let t = match std::panic::catch_unwind(|| run_script(&full)) {
            Ok(t) => t,
            Err(_) => "HARNESS-PANIC".to_string(),
        };
        // the prelude's three steps are not part of the model's trace
        let t = t.strip_prefix("B0 ;  begin=ok ; A0h0s ; ").map(|x| x.to_string()).unwrap_or(t);
        for ev in s.split(';') {
            out.count(&format!("ev_{}", ev.trim()));
        }
        if t.contains("send=Accepted") || t.contains("det=") || t.contains("cls=") {
            out.nontrivial(&line);
        }
        for v in direct_oracle(&full, &format!("B0 ;  begin=ok ; A0h0s ; {}", t)) {
            let class = v.split(':').next().unwrap_or("?").to_string();
            out.violation(&class, &format!("{} | script `{}` -> {}", v, full, t), &line);
        }
        out.case(&line, &t);
    }
    out.finish(dir);
}

// ------------------------------------------------------------------------------------------
// session + receiver link scripts, direct oracle only (sub `lifex`): the receiver-side counterpart of `life`,
// including session end/drop, peer end, and the combinations left out of `lifer`
// ------------------------------------------------------------------------------------------

pub fn gen_script_rx(r: &mut Rng, max_len: u64) -> String {
    let mut evs: Vec<&str> = Vec::new();
    let (mut begun, mut pb, mut att, mut pa, mut pdet, mut pend) = (false, false, false, false, false, false);
    let mut sess_free = false;
    let mut link_free = false;
    let mut recv_waiting = false; // a recv() is pending with nothing queued
    let mut queued: u32 = 0;
    let mut credit: u32 = 0;
    let n = r.range(3, max_len + 6);
    let mut guard = 0;
    while (evs.len() as u64) < n && guard < 400 {
        guard += 1;
        let e: &str = if !begun {
            "begin"
        } else if !pb && r.below(5) != 0 {
            "pb"
        } else if pb && !att && sess_free && r.below(4) != 0 {
            "attr"
        } else if att && !pa && !pend && r.below(4) != 0 {
            if r.below(8) == 0 {
                "par"
            } else {
                "pa"
            }
        } else {
            match r.below(24) {
                0..=3 => "recv",
                4..=7 => "pt",
                8..=9 => "det",
                10..=11 => "cls",
                12..=13 => "end",
                14 => "ende",
                15 => "pdc",
                16 => "pe",
                17 => "pd",
                18 => "pde",
                19 => "pee",
                20 => "dropl",
                21 => "drops",
                22 => "abortl",
                _ => "aborts",
            }
        };
        let legal = match e {
            "pb" => begun && !pb,
            "attr" => pb && !att && sess_free,
            "pa" | "par" => att && !pa && !pend,
            "pt" => pa && !pdet && !pend && credit > 0,
            "pd" | "pdc" | "pde" => pa && !pdet && !pend,
            "pe" | "pee" => pb && !pend,
            "recv" | "det" | "cls" | "dropl" => link_free,
            "abortl" => pa && !link_free && att,
            "end" | "ende" | "drops" => sess_free,
            "aborts" => pb && !sess_free,
            _ => true,
        };
        if !legal {
            continue;
        }
        match e {
            "begin" => begun = true,
            "pb" => {
                pb = true;
                sess_free = true;
            }
            "attr" => {
                att = true;
                sess_free = false;
            }
            "pa" => {
                pa = true;
                sess_free = true;
                link_free = true;
                credit = 2;
            }
            "par" => {
                att = false;
                sess_free = true;
            }
            "pt" => {
                credit -= 1;
                if recv_waiting {
                    recv_waiting = false;
                    link_free = true;
                    credit = 2;
                } else {
                    queued += 1;
                }
            }
            "recv" => {
                if queued > 0 {
                    queued -= 1;
                    credit = 2 - queued.min(2);
                } else if pdet {
                    // answered at once, the handle stays with the application
                } else {
                    recv_waiting = true;
                    link_free = false;
                }
            }
            "det" | "cls" | "dropl" | "abortl" => {
                link_free = false;
                recv_waiting = false;
            }
            "pd" | "pdc" | "pde" => {
                pdet = true;
                if recv_waiting {
                    recv_waiting = false;
                    link_free = true;
                }
            }
            "end" | "ende" | "drops" | "aborts" => sess_free = false,
            "pe" | "pee" => pend = true,
            _ => {}
        }
        evs.push(e);
    }
    evs.join(" ; ")
}

pub fn run_rx(seed: u64, n: u64, thorough: bool, corpus: &[String], dir: &str) {
    crate::codec::quiet_panics();
    let mut out = Outputs::new(dir);
    let mut r = Rng::new(seed);
    let mut scripts: Vec<String> = Vec::new();
    for l in corpus {
        if let Some(s) = l.strip_prefix("lifex ") {
            out.count("corpus_cases");
            scripts.push(s.to_string());
        }
    }
    for _ in 0..n {
        scripts.push(gen_script_rx(&mut r, if thorough { 10 } else { 7 }));
    }
    for s in scripts {
        let line = format!("lifex {}", s);
        let t = match std::panic::catch_unwind(|| run_script(&s)) {
            Ok(t) => t,
            Err(_) => "HARNESS-PANIC".to_string(),
        };
        for ev in s.split(';') {
            out.count(&format!("ev_{}", ev.trim()));
        }
        if t.contains("att=ok") && (t.contains("det=") || t.contains("cls=") || t.contains("end=") || t.contains("recv=")) {
            out.nontrivial(&line);
        }
        for v in direct_oracle(&s, &t) {
            let class = v.split(':').next().unwrap_or("?").to_string();
            out.violation(&class, &format!("{} | script `{}` -> {}", v, s, t), &line);
        }
        out.case(&line, &t);
    }
    out.finish(dir);
}

// ------------------------------------------------------------------------------------------
// receiver link scripts compared with the Coq model Link/RecvLife.v (tag `lifer`)
// ------------------------------------------------------------------------------------------

#[derive(Clone, Copy, PartialEq, Debug)]
enum RPhase {
    AttSent,
    Idle,
    RecvWait,
    DetSent,
    ClsSent,
    Reattach,
    ReCls,
    Detached,
    Dropped,
    Gone,
    SessEnded,
}

/// what the generator has to know about a receiver-link script so far: where the handle is, what the link has not
/// looked at yet, what the peer may still do
#[derive(Clone, Debug)]
struct RSim {
    phase: RPhase,
    /// transfers the link has not looked at
    q: usize,
    /// a peer detach the link has not looked at
    rd: Option<&'static str>,
    /// the peer's view of the link credit
    credit: usize,
    /// the peer has sent its detach for the current attach
    peer_detached: bool,
    /// the detach exchanged by recv() was a closing one
    closing: bool,
}

impl RSim {
    fn new() -> Self {
        RSim { phase: RPhase::AttSent, q: 0, rd: None, credit: 0, peer_detached: false, closing: false }
    }
    fn handle_free(&self) -> bool {
        matches!(self.phase, RPhase::Idle | RPhase::Detached)
    }
    fn handle_busy(&self) -> bool {
        matches!(self.phase, RPhase::RecvWait | RPhase::DetSent | RPhase::ClsSent | RPhase::Reattach | RPhase::ReCls)
    }
    /// the peer stays within the protocol; the combinations whose outcome depends on the order in which the session
    /// engine's select! polls the link's two channels are left out: detach() meeting an unseen closing peer detach,
    /// close() meeting an unseen non-closing one (both re-attach while the local detach is still in the outgoing channel)
    fn legal(&self, e: &str) -> bool {
        use RPhase::*;
        match e {
            "pa" => matches!(self.phase, AttSent | Reattach),
            "pt" => !matches!(self.phase, AttSent | Reattach | ReCls | SessEnded) && !self.peer_detached && self.credit > 0,
            "pd" | "pdc" | "pde" => !matches!(self.phase, AttSent | Reattach | SessEnded) && !self.peer_detached,
            "det" => !(self.phase == Idle && matches!(self.rd, Some("pdc") | Some("pde"))),
            "cls" => !(self.phase == Idle && self.rd == Some("pd")),
            _ => true,
        }
    }
    /// local events that do something
    fn useful(&self, e: &str) -> bool {
        match e {
            "recv" | "det" | "cls" | "dropl" => self.handle_free(),
            "abortl" => self.handle_busy(),
            _ => true,
        }
    }
    fn step(&mut self, e: &str) {
        use RPhase::*;
        let kind: Option<&'static str> = match e {
            "pd" => Some("pd"),
            "pdc" => Some("pdc"),
            "pde" => Some("pde"),
            _ => None,
        };
        match (self.phase, e) {
            (AttSent, "pa") => {
                self.phase = Idle;
                self.credit = 2;
            }
            (Reattach, "pa") => {
                self.phase = ReCls;
                self.peer_detached = false;
                self.credit = 0;
            }
            (SessEnded, _) => {}
            (Gone, _) => {
                if kind.is_some() {
                    self.peer_detached = true;
                }
            }
            (_, "pt") => {
                self.credit -= 1;
                match self.phase {
                    Idle => self.q += 1,
                    RecvWait => {
                        self.phase = Idle;
                        self.credit = 2;
                    }
                    Dropped => self.phase = SessEnded,
                    _ => {}
                }
            }
            (_, "pd") | (_, "pdc") | (_, "pde") => {
                self.peer_detached = true;
                match self.phase {
                    Idle => self.rd = kind,
                    RecvWait => {
                        self.phase = Detached;
                        self.closing = e != "pd";
                    }
                    DetSent => self.phase = if e == "pd" { Gone } else { Reattach },
                    ClsSent | ReCls | Dropped => self.phase = Gone,
                    _ => {}
                }
            }
            (Idle, "recv") => {
                if self.q > 0 {
                    self.q -= 1;
                    self.credit = 2 - self.q;
                } else if let Some(k) = self.rd.take() {
                    self.closing = k != "pd";
                    self.phase = Detached;
                } else {
                    self.phase = RecvWait;
                }
            }
            (Idle, "det") => self.phase = if self.rd.is_some() { Gone } else { DetSent },
            (Idle, "cls") => self.phase = if self.rd.is_some() { Gone } else { ClsSent },
            (Idle, "dropl") => self.phase = if self.rd.is_some() { Gone } else { Dropped },
            (Detached, "det") | (Detached, "dropl") => self.phase = Gone,
            (Detached, "cls") => self.phase = if self.closing { Gone } else { Reattach },
            (RecvWait, "abortl") | (DetSent, "abortl") | (ClsSent, "abortl") => self.phase = Dropped,
            (Reattach, "abortl") | (ReCls, "abortl") => self.phase = Gone,
            _ => {}
        }
    }
}

fn recv_sim(cur: &[&str]) -> RSim {
    let mut s = RSim::new();
    for e in cur {
        s.step(e);
    }
    s
}

/// legality of the next event of a receiver-link script given the events so far (see [RSim::legal])
fn recv_link_legal(cur: &[&str], e: &str) -> bool {
    recv_sim(cur).legal(e)
}

pub fn run_recv_link_model(seed: u64, n: u64, thorough: bool, corpus: &[String], dir: &str) {
    crate::codec::quiet_panics();
    let mut out = Outputs::new(dir);
    let mut r = Rng::new(seed);
    let mut scripts: Vec<String> = Vec::new();
    for l in corpus {
        if let Some(s) = l.strip_prefix("lifer ") {
            out.count("corpus_cases");
            scripts.push(s.to_string());
        }
    }
    let alphabet = ["pa", "pt", "recv", "det", "cls", "dropl", "abortl", "pd", "pdc", "pde"];
    // every legal script of up to `full` events after `pa`; beyond that, up to `deep` events, only with local events that
    // find the handle in the state they need (the others do nothing)
    let (full, deep) = if thorough { (5, 7) } else { (4, 5) };
    let mut stack: Vec<(Vec<&str>, bool)> = vec![(vec!["pa"], true)];
    while let Some((cur, all)) = stack.pop() {
        scripts.push(cur.join(" ; "));
        let len = cur.len() - 1;
        if len < deep {
            let sim = recv_sim(&cur);
            for e in alphabet.iter() {
                if !sim.legal(e) {
                    continue;
                }
                let useful = sim.useful(e);
                if useful || (all && len < full) {
                    let mut nx = cur.clone();
                    nx.push(e);
                    stack.push((nx, all && (len < full)));
                }
            }
        }
    }
    out.add("enumerated_scripts", scripts.len() as u64);
    for _ in 0..n {
        let mut cur: Vec<&str> = vec!["pa"];
        let len = r.range(3, 12);
        let mut guard = 0;
        while (cur.len() as u64) < len && guard < 100 {
            guard += 1;
            let e = match r.below(16) {
                0..=2 => "recv",
                3..=5 => "pt",
                _ => *r.pick(&alphabet),
            };
            // mostly events that do something
            if recv_link_legal(&cur, e) && (recv_sim(&cur).useful(e) || r.below(6) == 0) {
                cur.push(e);
            }
        }
        scripts.push(cur.join(" ; "));
    }
    for s in scripts {
        let line = format!("lifer {}", s);
        let full = format!("begin ; pb ; attr ; {}", s);
        let t = match std::panic::catch_unwind(|| run_script(&full)) {
            Ok(t) => t,
            Err(_) => "HARNESS-PANIC".to_string(),
        };
        // the prelude's three steps are not part of the model's trace
        let t = t.strip_prefix("B0 ;  begin=ok ; A0h0r ; ").map(|x| x.to_string()).unwrap_or(t);
        for ev in s.split(';') {
            out.count(&format!("ev_{}", ev.trim()));
        }
        if t.contains("recv=") || t.contains("det=") || t.contains("cls=") {
            out.nontrivial(&line);
        }
        for v in direct_oracle(&full, &format!("B0 ;  begin=ok ; A0h0r ; {}", t)) {
            let class = v.split(':').next().unwrap_or("?").to_string();
            out.violation(&class, &format!("{} | script `{}` -> {}", v, full, t), &line);
        }
        out.case(&line, &t);
    }
    out.finish(dir);
}

// ------------------------------------------------------------------------------------------
// chanre: a channel is used again only after the session that held it has ended (C11)
// ------------------------------------------------------------------------------------------

/// fixed scripts: a second session is begun while the first one is ending in every way a session can end
pub fn run_channel_reuse(dir: &str) {
    crate::codec::quiet_panics();
    let mut out = Outputs::new(dir);
    let mut scripts: Vec<String> = Vec::new();
    for ending in ["end", "ende", "drops", "pe ; end", "pee"] {
        for tail in ["begin2", "begin2 ; pe", "begin2 ; pee", "begin2 ; pe ; pb", "pe ; begin2 ; pb"] {
            scripts.push(format!("begin ; pb ; {} ; {}", ending, tail));
            scripts.push(format!("begin ; pb ; att ; pa ; {} ; {}", ending, tail));
        }
    }
    for sc in scripts {
        let line = format!("chanre {}", sc);
        let t = run_script(&sc);
        // per step: wire tokens; a begin on channel c while an earlier session on c has not both written its end and
        // received the peer's
        let evs: Vec<&str> = sc.split(';').map(|x| x.trim()).collect();
        let steps: Vec<&str> = t.split(';').map(|x| x.trim()).collect();
        let mut open_on: std::collections::HashMap<String, (bool, bool)> = Default::default(); // channel -> (our end written, peer's end received)
        for (i, e) in evs.iter().enumerate() {
            if matches!(*e, "pe" | "pee") {
                for st in open_on.values_mut() {
                    st.1 = true;
                }
            }
            let st = steps.get(i).cloned().unwrap_or("");
            for tok in st.split_whitespace().next().unwrap_or("").split(',') {
                if let Some(ch) = tok.strip_prefix('B') {
                    let ch: String = ch.chars().take_while(|c| c.is_ascii_digit()).collect();
                    if let Some((ours, theirs)) = open_on.get(&ch) {
                        if !(*ours && *theirs) {
                            out.violation(
                                "c11-channel-reused-early",
                                &format!("c11-channel-reused-early: a begin was written on channel {} at step {} while the session that holds it has not ended (our end written: {}, peer's end received: {}) | `{}` -> {}", ch, i, ours, theirs, sc, t),
                                &line,
                            );
                        }
                    }
                    open_on.insert(ch, (false, false));
                } else if let Some(ch) = tok.strip_prefix('E') {
                    let ch: String = ch.chars().take_while(|c| c.is_ascii_digit()).collect();
                    if let Some(st) = open_on.get_mut(&ch) {
                        st.0 = true;
                    }
                }
            }
        }
        if t.contains("begin2=ok") {
            out.nontrivial(&line);
        }
        out.case(&line, &t);
    }
    out.finish(dir);
}
