//! Building blocks of the engine-level harness: a scripted peer that writes raw bytes over an
//! in-memory duplex, an independent frame parser for what the endpoint writes, and the
//! quiescence barrier (1 ms of paused tokio time, which the runtime grants only when every
//! task is idle).
use fe2o3_amqp_types::performatives::Performative;
use std::time::Duration;
use tokio::io::{AsyncReadExt, AsyncWriteExt, DuplexStream};

pub const AMQP_HEADER: [u8; 8] = [b'A', b'M', b'Q', b'P', 0, 1, 0, 0];
pub const SASL_HEADER: [u8; 8] = [b'A', b'M', b'Q', b'P', 3, 1, 0, 0];

pub fn paused_rt() -> tokio::runtime::Runtime {
    let mut b = tokio::runtime::Builder::new_current_thread();
    b.enable_all().start_paused(true);
    // fixes the order in which tokio::select! tries its branches: traces are the same on every run
    #[cfg(tokio_unstable)]
    b.rng_seed(tokio::runtime::RngSeed::from_bytes(b"fe2o3 verif"));
    b.build().unwrap()
}

/// deterministic quiescence barrier
pub async fn barrier() {
    tokio::time::sleep(Duration::from_millis(1)).await;
}

pub fn frame_bytes(channel: u16, perf: &Performative, payload: &[u8]) -> Vec<u8> {
    let body = serde_amqp::to_vec(perf).unwrap();
    raw_frame(channel, 2, 0, &[&body[..], payload].concat())
}

pub fn raw_frame(channel: u16, doff: u8, ftype: u8, body: &[u8]) -> Vec<u8> {
    let mut v = Vec::with_capacity(8 + body.len());
    v.extend_from_slice(&((8 + body.len()) as u32).to_be_bytes());
    v.push(doff);
    v.push(ftype);
    v.extend_from_slice(&channel.to_be_bytes());
    v.extend_from_slice(body);
    v
}

pub fn empty_frame() -> Vec<u8> {
    raw_frame(0, 2, 0, &[])
}

/// One thing the endpoint wrote
#[derive(Debug, Clone)]
pub enum Wire {
    Header([u8; 8]),
    Frame { channel: u16, perf: Performative, payload: Vec<u8> },
    Empty { channel: u16 },
    /// frame type 1
    Sasl(Vec<u8>),
    Garbage(Vec<u8>),
}

/// Incremental parser of what the endpoint writes
pub struct Parser {
    buf: Vec<u8>,
    seen_header: bool,
    pub expect_headers: usize,
}

impl Parser {
    pub fn new() -> Self {
        Self { buf: Vec::new(), seen_header: false, expect_headers: 1 }
    }
    pub fn feed(&mut self, b: &[u8]) -> Vec<Wire> {
        self.buf.extend_from_slice(b);
        let mut out = Vec::new();
        loop {
            if self.expect_headers > 0 && !self.seen_header || (self.buf.len() >= 4 && &self.buf[..4] == b"AMQP") {
                if self.buf.len() < 8 {
                    break;
                }
                let mut h = [0u8; 8];
                h.copy_from_slice(&self.buf[..8]);
                self.buf.drain(..8);
                self.seen_header = true;
                out.push(Wire::Header(h));
                continue;
            }
            if self.buf.len() < 4 {
                break;
            }
            let size = u32::from_be_bytes([self.buf[0], self.buf[1], self.buf[2], self.buf[3]]) as usize;
            if size < 8 {
                out.push(Wire::Garbage(self.buf.drain(..).collect()));
                break;
            }
            if self.buf.len() < size {
                break;
            }
            let fr: Vec<u8> = self.buf.drain(..size).collect();
            let channel = u16::from_be_bytes([fr[6], fr[7]]);
            if fr[5] == 1 {
                out.push(Wire::Sasl(fr[8..].to_vec()));
            } else if fr.len() == 8 {
                out.push(Wire::Empty { channel });
            } else {
                match serde_amqp::from_slice::<Performative>(&fr[8..]) {
                    Ok(perf) => {
                        let n = serde_amqp::to_vec(&perf).map(|v| v.len()).unwrap_or(fr.len() - 8).min(fr.len() - 8);
                        out.push(Wire::Frame { channel, perf, payload: fr[8 + n..].to_vec() });
                    }
                    Err(_) => out.push(Wire::Garbage(fr)),
                }
            }
        }
        out
    }
}

/// The peer's end of the pipe plus the parse state of the endpoint's output
pub struct Peer {
    pub io: DuplexStream,
    pub parser: Parser,
    pub eof: bool,
}

impl Peer {
    pub fn new(io: DuplexStream) -> Self {
        Self { io, parser: Parser::new(), eof: false }
    }
    pub async fn write(&mut self, b: &[u8]) -> bool {
        self.io.write_all(b).await.is_ok()
    }
    pub async fn shutdown(&mut self) {
        let _ = self.io.shutdown().await;
    }
    /// read whatever the endpoint has written so far (non-blocking thanks to the paused clock)
    pub async fn drain(&mut self) -> Vec<Wire> {
        let mut out = Vec::new();
        loop {
            let mut tmp = [0u8; 65536];
            match tokio::time::timeout(Duration::from_micros(1), self.io.read(&mut tmp)).await {
                Ok(Ok(0)) => {
                    self.eof = true;
                    break;
                }
                Ok(Ok(n)) => out.extend(self.parser.feed(&tmp[..n])),
                Ok(Err(_)) => {
                    self.eof = true;
                    break;
                }
                Err(_) => break,
            }
        }
        out
    }
}

/// A peer whose reading side runs in its own task and stamps everything the endpoint writes
/// with the (virtual) time at which it was written
pub struct TimedPeer {
    pub wr: tokio::io::WriteHalf<DuplexStream>,
    log: std::sync::Arc<std::sync::Mutex<Vec<(u64, Option<Vec<u8>>)>>>,
    parser: Parser,
    pub eof_at: Option<u64>,
}

impl TimedPeer {
    /// [t0]: the instant from which times are counted
    pub fn new(io: DuplexStream, t0: tokio::time::Instant) -> Self {
        let (mut rd, wr) = tokio::io::split(io);
        let log = std::sync::Arc::new(std::sync::Mutex::new(Vec::new()));
        let l2 = log.clone();
        tokio::spawn(async move {
            loop {
                let mut tmp = [0u8; 65536];
                let r = rd.read(&mut tmp).await;
                let t = tokio::time::Instant::now().saturating_duration_since(t0).as_millis() as u64;
                match r {
                    Ok(0) | Err(_) => {
                        l2.lock().unwrap().push((t, None));
                        break;
                    }
                    Ok(n) => l2.lock().unwrap().push((t, Some(tmp[..n].to_vec()))),
                }
            }
        });
        Self { wr, log, parser: Parser::new(), eof_at: None }
    }
    pub async fn write(&mut self, b: &[u8]) -> bool {
        self.wr.write_all(b).await.is_ok()
    }
    pub async fn shutdown(&mut self) {
        let _ = self.wr.shutdown().await;
    }
    /// everything written since the last call, with its time
    pub fn take(&mut self) -> Vec<(u64, Wire)> {
        let chunks: Vec<(u64, Option<Vec<u8>>)> = std::mem::take(&mut *self.log.lock().unwrap());
        let mut out = Vec::new();
        for (t, c) in chunks {
            match c {
                Some(b) => {
                    for w in self.parser.feed(&b) {
                        out.push((t, w));
                    }
                }
                None => self.eof_at = Some(t),
            }
        }
        out
    }
}

/// canonical short token for a wire item
pub fn wire_token(w: &Wire) -> String {
    match w {
        Wire::Header(h) => {
            if *h == AMQP_HEADER {
                "H".into()
            } else if *h == SASL_HEADER {
                "Hs".into()
            } else {
                format!("H?{:?}", h)
            }
        }
        Wire::Empty { .. } => "Z".into(),
        Wire::Sasl(_) => "S".into(),
        Wire::Garbage(g) => format!("G{}", g.len()),
        Wire::Frame { channel, perf, payload } => match perf {
            Performative::Open(_) => "O".into(),
            Performative::Close(c) => match &c.error {
                None => "C".into(),
                Some(e) => format!("Ce({})", cond(&e.condition)),
            },
            Performative::Begin(b) => format!("B{}{}", channel, b.remote_channel.map(|r| format!("r{}", r)).unwrap_or_default()),
            Performative::End(e) => match &e.error {
                None => format!("E{}", channel),
                Some(er) => format!("E{}e({})", channel, cond(&er.condition)),
            },
            Performative::Attach(a) => format!("A{}h{}{}", channel, a.handle.0, if matches!(a.role, fe2o3_amqp_types::definitions::Role::Sender) { "s" } else { "r" }),
            Performative::Detach(d) => format!(
                "D{}h{}{}{}",
                channel,
                d.handle.0,
                if d.closed { "c" } else { "" },
                d.error.as_ref().map(|e| format!("e({})", cond(&e.condition))).unwrap_or_default()
            ),
            Performative::Flow(f) => format!(
                "F{}{}",
                channel,
                f.handle.as_ref().map(|h| format!("h{}c{}", h.0, f.link_credit.map(|c| c.to_string()).unwrap_or("-".into()))).unwrap_or_default()
            ),
            Performative::Transfer(t) => format!(
                "T{}h{}{}{}p{}",
                channel,
                t.handle.0,
                t.delivery_id.map(|d| format!("d{}", d)).unwrap_or_default(),
                if t.more { "m" } else { "" },
                payload.len()
            ),
            Performative::Disposition(d) => format!(
                "P{}{}f{}{}{}",
                channel,
                if matches!(d.role, fe2o3_amqp_types::definitions::Role::Receiver) { "r" } else { "s" },
                d.first,
                d.last.map(|l| format!("l{}", l)).unwrap_or_default(),
                if d.settled { "s" } else { "u" }
            ),
        },
    }
}

pub fn cond(c: &fe2o3_amqp_types::definitions::ErrorCondition) -> String {
    let s = format!("{:?}", c);
    // e.g. AmqpError(IllegalState) -> IllegalState
    s.rsplit('(').next().unwrap_or(&s).trim_end_matches(')').to_string()
}

pub fn tokens(ws: &[Wire]) -> String {
    ws.iter().map(wire_token).collect::<Vec<_>>().join(",")
}
