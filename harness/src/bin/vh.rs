//! vh <sub> --seed S --n N --dir DIR [--thorough] [--corpus FILE]
use std::env;

#[global_allocator]
static GLOBAL: vharness::alloc::Counting = vharness::alloc::Counting;

fn main() {
    let args: Vec<String> = env::args().collect();
    if args.len() < 2 {
        eprintln!("usage: vh <sub> --seed S --n N --dir DIR [--thorough] [--corpus FILE]");
        std::process::exit(2);
    }
    let sub = args[1].clone();
    if sub == "lifecase" {
        // vh lifecase '<script>': trace and oracle verdict of one session+link script
        let script = args[2..].join(" ");
        let t = vharness::life::run_script(&script);
        println!("{}", t);
        for v in vharness::life::direct_oracle(&script, &t) {
            println!("VIOLATION {}", v);
        }
        return;
    }
    if sub == "cutmcase" {
        // vh cutmcase <cut case line...>: trace, scenario for the model and abstract results of one case
        println!("{}", vharness::cutm::show(&args[2..].join(" ")));
        return;
    }
    if sub == "lazy" {
        // vh lazy <hex of one encoded value>: read it as (LazyValue, u8) from a two-element list
        let bytes = vharness::val::unhex(&args[2]).expect("hex");
        let mut lst = vec![0xd0u8];
        lst.extend(((bytes.len() + 2 + 4) as u32).to_be_bytes());
        lst.extend(2u32.to_be_bytes());
        lst.extend_from_slice(&bytes);
        lst.extend_from_slice(&[0x50, 0x2a]);
        match serde_amqp::from_slice::<(serde_amqp::lazy::LazyValue, u8)>(&lst) {
            Ok((l, m)) => println!("OK octets={} marker={:#x}", vharness::val::hex(l.as_slice()), m),
            Err(e) => println!("ERR {:?}", e),
        }
        match serde_amqp::from_reader::<(serde_amqp::lazy::LazyValue, u8)>(&lst[..]) {
            Ok((l, m)) => println!("io: OK octets={} marker={:#x}", vharness::val::hex(l.as_slice()), m),
            Err(e) => println!("io: ERR {:?}", e),
        }
        return;
    }
    if sub == "txnmcase" {
        // vh txnmcase '<script>': concrete and abstract trace of one `txnm` script
        let script = args[2..].join(" ");
        let t = vharness::txn::run_case(&format!("txn-l | {}", script));
        println!("{}", t);
        println!("{}", vharness::txn::abstract_trace(&script, &t));
        return;
    }
    if sub == "txncase" {
        // vh txncase '<case line>': trace and oracle verdict of one case
        let line = args[2..].join(" ");
        let t = vharness::txn::run_case(&line);
        println!("{}", t);
        for v in vharness::txn::direct_oracle(&line, &t) {
            println!("VIOLATION {}", v);
        }
        return;
    }
    if sub == "txc-case" {
        // vh txc-case '<case line>': trace and oracle verdict of one case
        let line = args[2..].join(" ");
        let t = vharness::txc::run_case(&line);
        println!("{}", t);
        for v in vharness::txc::direct_oracle(&line, &t) {
            println!("VIOLATION {}", v);
        }
        return;
    }
    if sub == "cutcase" {
        // vh cutcase <case line...>: replay one case, print trace and oracle verdicts
        let line = args[2..].join(" ");
        let t = vharness::cut::run_case(&line);
        println!("{}", t);
        for v in vharness::cut::direct_oracle(&line, &t) {
            println!("VIOLATION {}", v);
        }
        return;
    }
    if sub == "deepchild" {
        vharness::codec::deep_child(args[2].parse().unwrap());
        return;
    }
    if sub == "e2ecase" {
        // vh e2ecase <case line...>: replay one case, print trace and oracle verdicts
        let line = args[2..].join(" ");
        let t = vharness::e2e::run_case(&line);
        println!("{}", t);
        for v in vharness::e2e::direct_oracle(&line, &t) {
            println!("VIOLATION {}", v);
        }
        return;
    }
    if sub == "hostile-worker" {
        vharness::hostile::worker_main();
        return;
    }
    if sub == "hostile-decode" {
        vharness::hostile::decode_probe(args[2].parse().unwrap());
        return;
    }
    if sub == "hostile-case" {
        // vh hostile-case '<case line>': trace and oracle verdict of one case
        let line = args[2..].join(" ");
        let t = vharness::hostile::run_case(&line);
        println!("{}", t);
        for v in vharness::hostile::direct_oracle(&line, &t) {
            println!("VIOLATION {}", v);
        }
        return;
    }
    let mut seed = 1u64;
    let mut n = 100u64;
    let mut dir = String::from("out");
    let mut thorough = false;
    let mut corpus: Vec<String> = Vec::new();
    let mut i = 2;
    while i < args.len() {
        match args[i].as_str() {
            "--seed" => { seed = args[i + 1].parse().unwrap(); i += 2; }
            "--n" => { n = args[i + 1].parse().unwrap(); i += 2; }
            "--dir" => { dir = args[i + 1].clone(); i += 2; }
            "--thorough" => { thorough = true; i += 1; }
            "--corpus" => {
                if let Ok(s) = std::fs::read_to_string(&args[i + 1]) {
                    corpus.extend(s.lines().filter(|l| !l.trim().is_empty() && !l.starts_with('#')).map(|l| l.to_string()));
                }
                i += 2;
            }
            other => { eprintln!("unknown arg {other}"); std::process::exit(2); }
        }
    }
    match sub.as_str() {
        "c07" => vharness::c07::run(seed, n, thorough, &corpus, &dir),
        "codec" => vharness::codec::run(seed, n, thorough, &corpus, &dir),
        "frame" => vharness::frame::run(seed, n, thorough, &corpus, &dir),
        "c02" => vharness::c02::run(seed, n, thorough, &corpus, &dir),
        "c11" => vharness::c11::run(seed, n, thorough, &corpus, &dir),
        "c12" => vharness::c12::run(seed, n, thorough, &corpus, &dir),
        "c17" => vharness::c17::run(seed, n, thorough, &corpus, &dir),
        "rx" => vharness::rx::run(seed, n, thorough, &corpus, &dir),
        "life" => vharness::life::run(seed, n, thorough, &corpus, &dir),
        "lifem" => vharness::life::run_model(seed, n, thorough, &corpus, &dir),
        "lifel" => vharness::life::run_link_model(seed, n, thorough, &corpus, &dir),
        "lifer" => vharness::life::run_recv_link_model(seed, n, thorough, &corpus, &dir),
        "lifex" => vharness::life::run_rx(seed, n, thorough, &corpus, &dir),
        "lifeq" => vharness::life::run_flush(&dir),
        "chanre" => vharness::life::run_channel_reuse(&dir),
        "c05" => vharness::c05::run(seed, n, thorough, &corpus, &dir),
        "txc" => vharness::txc::run(seed, n, thorough, &corpus, &dir),
        "txcm" => vharness::txc::run_model(seed, n, thorough, &corpus, &dir),
        "txn" => vharness::txn::run(seed, n, thorough, &corpus, &dir),
        "txnm" => vharness::txn::run_model(seed, n, thorough, &corpus, &dir),
        "ctlm" => vharness::txn::run_model_c(seed, n, thorough, &corpus, &dir),
        "cut" => vharness::cut::run(seed, n, thorough, &corpus, &dir),
        "cutm" => vharness::cutm::run(seed, n, thorough, &corpus, &dir),
        "e2e" => vharness::e2e::run(seed, n, thorough, &corpus, &dir),
        "hostile" => vharness::hostile::run(seed, n, thorough, &corpus, &dir),
        "sasl" => vharness::sasl::run(seed, n, thorough, &corpus, &dir),
        "saslm" => vharness::sasl::run_model(seed, n, thorough, &corpus, &dir),
        "saslc" => vharness::sasl::run_model_c(seed, n, thorough, &corpus, &dir),
        "saslp" => vharness::sasl::run_pipelined(seed, n, thorough, &dir),
        "c08" => vharness::c08::run(seed, n, thorough, &corpus, &dir),
        "c08w" => vharness::c08::run_wake(seed, n, &dir),
        "typed" => vharness::typed::run(seed, n, thorough, &corpus, &dir),
        "comp" => vharness::comp::run(seed, n, thorough, &corpus, &dir),
        "fdec" => vharness::fdec::run(seed, n, thorough, &corpus, &dir),
        "sfr" => vharness::sfr::run(seed, n, thorough, &corpus, &dir),
        "ovs" => vharness::ovs::run(seed, n, thorough, &corpus, &dir),
        "saslx" => vharness::saslx::run(seed, n, thorough, &corpus, &dir),
        "hreuse" => vharness::hreuse::run(seed, n, thorough, &corpus, &dir),
        "msg" => vharness::msg::run(seed, n, thorough, &corpus, &dir),
        "lill" => vharness::lill::run(seed, n, thorough, &corpus, &dir),
        "lwin" => vharness::lwin::run(seed, n, thorough, &corpus, &dir),
        "chmax" => vharness::chmax::run(seed, n, thorough, &corpus, &dir),
        "rres" => vharness::rres::run(seed, n, thorough, &corpus, &dir),
        other => { eprintln!("unknown sub-harness {other}"); std::process::exit(2); }
    }
}
