//! C16: cancelling a pending send (Part 1) or recv (Part 2) by POLL COUNT.
//!
//! Part 1 (`txc tx ...`): the library's client `Sender` against a byte-level receiver peer.
//! Every `sender.send(msg)` future is wrapped in [`CancelAfter`]: the future is dropped when it
//! returns `Pending` on its k-th poll. The peer is honest: it answers open/begin/attach, grants
//! credit by link flow frames, reassembles deliveries by the `more` flag and settles them.
//! It may stop READING for a while (back-pressure through pipe -> connection -> session -> link).
//!
//! case line (tx):
//!   `txc tx mfs=<n> cb=<n|d> sb=<n|d> pipe=<n> ssm=<s|u> mms=<n|-> cr=<up:N|late:N:T|win:W> pause=<a..b[,a..b]|-> sd=<ms> | op ; op ; ...`
//!   ops: `<size>:<k>` one send of a body of <size> bytes cancelled after its k-th pending poll (`inf`: never),
//!        `L<size>:<k>:<R>` the select!-loop pattern: re-send (same size) after each cancellation, at most R
//!        cancelled attempts and then one with k=inf, `g<ms>` the application sleeps.
//!
//! Part 2 (`txc rx ...`): the client `Receiver` against a byte-level sender peer.
//!   `txc rx mfs=<n> cb=<n|d> sb=<n|d> pipe=<n> acc=<auto|manual> cm=<auto:n|manual:n> pause=<..|-> burst=<0|1> start=<ms> k=<k[,k..]> | size ; size ; ...`
//!   the application calls `recv()` under CancelAfter(k) (the list of k is cycled), re-issuing after every
//!   cancellation (1 ms later) until all the messages have been returned; `start`: it sleeps that long before its
//!   first recv() (deliveries queue up in the link meanwhile).
use crate::eng::*;
use crate::out::*;
use crate::rng::Rng;
use fe2o3_amqp::link::receiver::CreditMode;
use fe2o3_amqp::types::definitions::{ReceiverSettleMode, Role, SenderSettleMode};
use fe2o3_amqp::types::messaging::{Accepted, AmqpValue, Body, DeliveryState, Message, Outcome, Source, Target};
use fe2o3_amqp::types::performatives::{Attach, Begin, Close, Detach, Disposition, End, Flow, Open, Performative, Transfer};
use fe2o3_amqp::types::primitives::Value;
use fe2o3_amqp::{Connection, Receiver, Sender, Session};
use futures_util::FutureExt;
use serde_amqp::primitives::Binary;
use std::future::Future;
use std::pin::Pin;
use std::sync::{Arc, Mutex};
use std::task::{Context, Poll};
use std::time::Duration;
use tokio::io::{AsyncReadExt, AsyncWriteExt, DuplexStream};

const PEER_HANDLE: u32 = 7;
/// virtual-time bound on one send / recv call
const STALL_MS: u64 = 600_000;

// ------------------------------------------------------------------------------------------
// cancellation by poll count
// ------------------------------------------------------------------------------------------

pub enum Ca<T> {
    /// completed at this poll
    Done(T, u64),
    /// dropped after this many polls (the last one returned Pending)
    Cancelled(u64),
    /// still pending at the virtual-time bound after this many polls (dropped then)
    Stalled(u64),
}

pub struct CancelAfter<F: Future> {
    fut: Option<Pin<Box<F>>>,
    budget: Option<u64>,
    polls: u64,
    deadline: Pin<Box<tokio::time::Sleep>>,
}

impl<F: Future> CancelAfter<F> {
    pub fn new(fut: F, budget: Option<u64>) -> Self {
        Self { fut: Some(Box::pin(fut)), budget, polls: 0, deadline: Box::pin(tokio::time::sleep(Duration::from_millis(STALL_MS))) }
    }
}

impl<F: Future> Future for CancelAfter<F> {
    type Output = Ca<F::Output>;
    fn poll(self: Pin<&mut Self>, cx: &mut Context<'_>) -> Poll<Self::Output> {
        let this = self.get_mut();
        // the deadline is looked at first so that its expiry does not count as a poll of the call
        if this.deadline.as_mut().poll(cx).is_ready() {
            this.fut = None;
            return Poll::Ready(Ca::Stalled(this.polls));
        }
        let f = this.fut.as_mut().expect("polled after completion");
        this.polls += 1;
        match f.as_mut().poll(cx) {
            Poll::Ready(v) => {
                this.fut = None;
                Poll::Ready(Ca::Done(v, this.polls))
            }
            Poll::Pending => {
                if this.budget.map(|b| this.polls >= b).unwrap_or(false) {
                    this.fut = None; // the call is dropped here
                    Poll::Ready(Ca::Cancelled(this.polls))
                } else {
                    Poll::Pending
                }
            }
        }
    }
}

// ------------------------------------------------------------------------------------------
// non-blocking byte pipe of the peer
// ------------------------------------------------------------------------------------------

struct Pipe {
    io: DuplexStream,
    parser: Parser,
    outbox: Vec<u8>,
    eof: bool,
    moved: bool,
}

impl Pipe {
    fn new(io: DuplexStream) -> Self {
        Self { io, parser: Parser::new(), outbox: Vec::new(), eof: false, moved: false }
    }
    fn read_now(&mut self) -> Vec<Wire> {
        let mut out = Vec::new();
        if self.eof {
            return out;
        }
        loop {
            let mut tmp = [0u8; 8192];
            match self.io.read(&mut tmp).now_or_never() {
                Some(Ok(0)) | Some(Err(_)) => {
                    self.eof = true;
                    break;
                }
                Some(Ok(n)) => {
                    self.moved = true;
                    out.extend(self.parser.feed(&tmp[..n]));
                }
                None => break,
            }
        }
        out
    }
    fn write_now(&mut self) {
        while !self.outbox.is_empty() {
            match self.io.write(&self.outbox).now_or_never() {
                Some(Ok(0)) | Some(Err(_)) => {
                    self.outbox.clear();
                    break;
                }
                Some(Ok(n)) => {
                    self.moved = true;
                    self.outbox.drain(..n);
                }
                None => break,
            }
        }
    }
    fn queue(&mut self, b: &[u8]) {
        self.outbox.extend_from_slice(b);
    }
}

// ------------------------------------------------------------------------------------------
// helpers
// ------------------------------------------------------------------------------------------

fn field<'a>(w: &'a [&'a str], k: &str) -> &'a str {
    for x in w {
        if let Some(v) = x.strip_prefix(k) {
            if let Some(v) = v.strip_prefix('=') {
                return v;
            }
        }
    }
    "-"
}

fn fnv(b: &[u8]) -> u64 {
    let mut h: u64 = 0xcbf29ce484222325;
    for x in b {
        h ^= *x as u64;
        h = h.wrapping_mul(0x100000001b3);
    }
    h
}

fn err_name(dbg: &str) -> String {
    // nested variant names without payload text: SendError::LinkStateError(IllegalState) -> LinkStateError(IllegalState)
    let mut out = String::new();
    let mut depth = 0;
    for c in dbg.chars() {
        match c {
            '(' => {
                depth += 1;
                out.push(c)
            }
            ')' => {
                depth -= 1;
                out.push(c)
            }
            '{' | ' ' | '"' | ',' => break,
            _ => out.push(c),
        }
    }
    for _ in 0..depth {
        out.push(')');
    }
    out.replace("()", "")
}

fn parse_pauses(s: &str) -> Vec<(u64, u64)> {
    if s == "-" {
        return vec![];
    }
    s.split(',')
        .map(|p| {
            let (a, b) = p.split_once("..").unwrap();
            (a.parse().unwrap(), b.parse().unwrap())
        })
        .collect()
}
fn paused(p: &[(u64, u64)], t: u64) -> bool {
    p.iter().any(|(a, b)| *a <= t && t < *b)
}
fn cap(s: &str) -> Option<usize> {
    if s == "d" {
        None
    } else {
        Some(s.parse().unwrap())
    }
}
fn kparse(s: &str) -> Option<u64> {
    if s == "inf" {
        None
    } else {
        Some(s.parse().unwrap())
    }
}
fn kshow(k: Option<u64>) -> String {
    k.map(|v| v.to_string()).unwrap_or("inf".into())
}

/// the body of the seq-th send call: the call number, then a pattern depending on it
pub fn body_bytes(seq: u32, size: usize) -> Vec<u8> {
    let mut v = Vec::with_capacity(size.max(4));
    v.extend_from_slice(&seq.to_be_bytes());
    let mut i = 4usize;
    while v.len() < size.max(4) {
        v.push((seq as usize * 31 + i * 7 + (i >> 8) * 13) as u8);
        i += 1;
    }
    v
}
fn message_of(seq: u32, size: usize) -> Message<AmqpValue<Value>> {
    Message::builder().value(Value::Binary(Binary::from(body_bytes(seq, size)))).build()
}
/// the bytes the link has to put on the wire for that call
pub fn encoded_message(seq: u32, size: usize) -> Vec<u8> {
    let m = message_of(seq, size);
    serde_amqp::to_vec(&fe2o3_amqp::types::messaging::message::__private::Serializable(&m)).unwrap()
}

/// the body size for which call number `seq` encodes to exactly `target` bytes, if there is one
pub fn size_for_encoded_len(seq: u32, target: usize) -> Option<usize> {
    (1..target).find(|s| encoded_message(seq, *s).len() == target)
}

fn peer_open(max_frame: u32) -> Performative {
    Performative::Open(Open {
        container_id: "peer".into(),
        hostname: None,
        max_frame_size: max_frame.into(),
        channel_max: 10u16.into(),
        idle_time_out: None,
        outgoing_locales: None,
        incoming_locales: None,
        offered_capabilities: None,
        desired_capabilities: None,
        properties: None,
    })
}
fn peer_begin(remote_channel: u16) -> Performative {
    Performative::Begin(Begin {
        remote_channel: Some(remote_channel),
        next_outgoing_id: 0,
        incoming_window: 1_000_000,
        outgoing_window: 1_000_000,
        handle_max: Default::default(),
        offered_capabilities: None,
        desired_capabilities: None,
        properties: None,
    })
}
fn peer_attach(name: &str, role: Role, mms: Option<u64>, rsm2: bool) -> Performative {
    Performative::Attach(Attach {
        name: name.into(),
        handle: PEER_HANDLE.into(),
        role: role.clone(),
        snd_settle_mode: SenderSettleMode::Mixed,
        rcv_settle_mode: if rsm2 { ReceiverSettleMode::Second } else { ReceiverSettleMode::First },
        source: Some(Box::new(Source::builder().address("q").build())),
        target: Some(Box::new(Target::builder().address("q").build().into())),
        unsettled: None,
        incomplete_unsettled: false,
        initial_delivery_count: if matches!(role, Role::Sender) { Some(0) } else { None },
        max_message_size: mms,
        offered_capabilities: None,
        desired_capabilities: None,
        properties: None,
    })
}

#[derive(Clone)]
struct Knobs {
    mfs: u32,
    cb: Option<usize>,
    sb: Option<usize>,
    pipe: usize,
    pauses: Vec<(u64, u64)>,
    /// rcv-settle-mode second (optional key `rsm=2`): the peer's outcome is not settled, the sender settles
    rsm2: bool,
    /// capacity of the session->link channel of the receiving link (optional key `lb=<n>`)
    lb: Option<usize>,
}

fn knobs(hw: &[&str]) -> Knobs {
    Knobs {
        rsm2: hw.iter().any(|x| *x == "rsm=2"),
        lb: hw.iter().find_map(|x| x.strip_prefix("lb=")).and_then(|x| x.parse().ok()),
        mfs: field(hw, "mfs").parse().unwrap(),
        cb: cap(field(hw, "cb")),
        sb: cap(field(hw, "sb")),
        pipe: field(hw, "pipe").parse().unwrap(),
        pauses: parse_pauses(field(hw, "pause")),
    }
}

/// what the peer keeps about the protocol layers below the link
struct Base {
    pipe: Pipe,
    /// the endpoint's channel / next-outgoing-id of its begin
    chan: u16,
    nii: u32,
    ep_handle: Option<u32>,
    attached: bool,
    /// frames by which the endpoint ends something (detach / end / close), as tokens
    link_events: Vec<String>,
    closed: bool,
}

impl Base {
    fn new(io: DuplexStream) -> Self {
        Self { pipe: Pipe::new(io), chan: 0, nii: 0, ep_handle: None, attached: false, link_events: Vec::new(), closed: false }
    }
    /// open / begin / attach / detach / end / close are answered here; transfers, flows and dispositions
    /// are handed back
    fn on_wire(&mut self, w: Wire, k: &Knobs, peer_role: Role, mms: Option<u64>) -> Option<(Performative, Vec<u8>)> {
        match w {
            Wire::Header(_) => {
                self.pipe.queue(&AMQP_HEADER);
                self.pipe.queue(&frame_bytes(0, &peer_open(k.mfs), &[]));
                None
            }
            Wire::Frame { channel, perf, payload } => match perf {
                Performative::Open(_) => None,
                Performative::Begin(b) => {
                    self.chan = channel;
                    self.nii = b.next_outgoing_id;
                    self.pipe.queue(&frame_bytes(0, &peer_begin(channel), &[]));
                    None
                }
                Performative::Attach(a) => {
                    self.ep_handle = Some(a.handle.0);
                    self.attached = true;
                    self.pipe.queue(&frame_bytes(0, &peer_attach(&a.name, peer_role, mms, k.rsm2), &[]));
                    Some((Performative::Attach(a), payload))
                }
                Performative::Detach(d) => {
                    self.link_events.push(wire_token(&Wire::Frame { channel, perf: Performative::Detach(d.clone()), payload: vec![] }));
                    if self.attached {
                        self.attached = false;
                        self.pipe.queue(&frame_bytes(0, &Performative::Detach(Detach { handle: PEER_HANDLE.into(), closed: d.closed, error: None }), &[]));
                    }
                    None
                }
                Performative::End(e) => {
                    self.link_events.push(wire_token(&Wire::Frame { channel, perf: Performative::End(e), payload: vec![] }));
                    self.attached = false;
                    self.pipe.queue(&frame_bytes(0, &Performative::End(End { error: None }), &[]));
                    None
                }
                Performative::Close(c) => {
                    self.link_events.push(wire_token(&Wire::Frame { channel, perf: Performative::Close(c), payload: vec![] }));
                    self.attached = false;
                    if !self.closed {
                        self.closed = true;
                        self.pipe.queue(&frame_bytes(0, &Performative::Close(Close { error: None }), &[]));
                    }
                    None
                }
                p => Some((p, payload)),
            },
            Wire::Empty { .. } => None,
            Wire::Sasl(_) => None,
            Wire::Garbage(g) => {
                self.link_events.push(format!("G{}", g.len()));
                None
            }
        }
    }
}

// ------------------------------------------------------------------------------------------
// Part 1: sends
// ------------------------------------------------------------------------------------------

#[derive(Clone, Debug)]
enum Credit {
    Up(u32),
    Late(u32, u64),
    Win(u32),
}

#[derive(Clone, Debug)]
enum Op {
    Send { size: usize, k: Option<u64> },
    Loop { size: usize, k: u64, r: u32 },
    Gap(u64),
}

fn parse_ops(script: &str) -> Vec<Op> {
    script
        .split(';')
        .map(|s| s.trim())
        .filter(|s| !s.is_empty())
        .map(|s| {
            if let Some(g) = s.strip_prefix('g') {
                Op::Gap(g.parse().unwrap())
            } else if let Some(l) = s.strip_prefix('L') {
                let p: Vec<&str> = l.split(':').collect();
                Op::Loop { size: p[0].parse().unwrap(), k: p[1].parse().unwrap(), r: p[2].parse().unwrap() }
            } else {
                let (a, b) = s.split_once(':').unwrap();
                Op::Send { size: a.parse().unwrap(), k: kparse(b) }
            }
        })
        .collect()
}

/// the largest number of send calls the script can make
fn max_attempts(ops: &[Op]) -> u32 {
    ops.iter()
        .map(|o| match o {
            Op::Send { .. } => 1,
            Op::Loop { r, .. } => r + 1,
            Op::Gap(_) => 0,
        })
        .sum()
}

struct Cur {
    did: Option<u32>,
    tag: Option<Vec<u8>>,
    settled: bool,
    frames: u32,
    payload: Vec<u8>,
}

/// one delivery as the peer reassembled it; status c(omplete) a(borted) p(artial: never finished)
struct Del {
    did: Option<u32>,
    tag: Option<Vec<u8>>,
    frames: u32,
    len: usize,
    hash: u64,
    status: char,
    settled: bool,
}

fn tag_show(t: &Option<Vec<u8>>) -> String {
    match t {
        None => "-".into(),
        Some(b) if b.len() == 4 => u32::from_be_bytes([b[0], b[1], b[2], b[3]]).to_string(),
        Some(b) => format!("x{}", b.iter().map(|x| format!("{:02x}", x)).collect::<String>()),
    }
}

struct SendRec {
    seq: u32,
    size: usize,
    k: Option<u64>,
    res: String,
    polls: u64,
}

pub fn run_tx(line: &str) -> String {
    let rest = line.strip_prefix("txc tx ").unwrap();
    let (hd, script) = rest.split_once('|').unwrap();
    let hw: Vec<&str> = hd.split_whitespace().collect();
    let kn = knobs(&hw);
    let settled_mode = field(&hw, "ssm") == "s";
    // ssm=m: snd-settle-mode mixed; pre=1: every message is sent pre-settled (`Sendable::settled(true)`)
    let mixed_mode = field(&hw, "ssm") == "m";
    let presettle = hw.iter().any(|x| *x == "pre=1");
    let mms: Option<u64> = match field(&hw, "mms") {
        "-" => None,
        v => Some(v.parse().unwrap()),
    };
    let cr = {
        let p: Vec<&str> = field(&hw, "cr").split(':').collect();
        match p[0] {
            "up" => Credit::Up(p[1].parse().unwrap()),
            "late" => Credit::Late(p[1].parse().unwrap(), p[2].parse().unwrap()),
            _ => Credit::Win(p[1].parse().unwrap()),
        }
    };
    let sd: u64 = field(&hw, "sd").parse().unwrap_or(0);
    let ops = parse_ops(script);
    paused_rt().block_on(async move {
        let (a, b) = tokio::io::duplex(kn.pipe);
        let mut base = Base::new(b);
        // ---- prelude: the application opens, begins, attaches; the peer answers as the frames come ----
        let kn2 = kn.clone();
        let setup = tokio::spawn(async move {
            let mut cb = Connection::builder().container_id("c").max_frame_size(kn2.mfs);
            if let Some(n) = kn2.cb {
                cb = cb.buffer_size(n);
            }
            let mut conn = cb.open_with_stream(a).await.map_err(|e| format!("open {:?}", e))?;
            let mut sbld = Session::builder();
            if let Some(n) = kn2.sb {
                sbld = sbld.buffer_size(n);
            }
            let mut session = sbld.begin(&mut conn).await.map_err(|e| format!("begin {:?}", e))?;
            let sender = Sender::builder()
                .name("s")
                .target("q")
                .sender_settle_mode(if settled_mode {
                    SenderSettleMode::Settled
                } else if mixed_mode {
                    SenderSettleMode::Mixed
                } else {
                    SenderSettleMode::Unsettled
                })
                .receiver_settle_mode(if kn2.rsm2 { ReceiverSettleMode::Second } else { ReceiverSettleMode::First })
                .attach(&mut session)
                .await
                .map_err(|e| format!("attach {:?}", e))?;
            Ok::<_, String>((conn, session, sender))
        });
        let mut dc: u32 = 0; // deliveries begun, from the sender's initial delivery-count
        let mut granted: u64 = 0;
        let mut ticks = 0;
        let flow = |nii: u32, dc: u32, credit: u32| {
            Performative::Flow(Flow {
                next_incoming_id: Some(nii),
                incoming_window: 1_000_000,
                next_outgoing_id: 0,
                outgoing_window: 1_000_000,
                handle: Some(PEER_HANDLE.into()),
                delivery_count: Some(dc),
                link_credit: Some(credit),
                available: None,
                drain: false,
                echo: false,
                properties: None,
            })
        };
        while !setup.is_finished() && ticks < 5000 {
            for w in base.pipe.read_now() {
                if let Some((Performative::Attach(a), _)) = base.on_wire(w, &kn, Role::Receiver, mms) {
                    dc = a.initial_delivery_count.unwrap_or(0);
                    match cr {
                        Credit::Up(n) | Credit::Win(n) => {
                            granted += n as u64;
                            base.pipe.queue(&frame_bytes(0, &flow(base.nii, dc, n), &[]));
                        }
                        Credit::Late(..) => {}
                    }
                }
            }
            base.pipe.write_now();
            barrier().await;
            ticks += 1;
        }
        if !setup.is_finished() {
            return "PRELUDE-FAILED pending".to_string();
        }
        let (_conn, _session, sender) = match setup.await {
            Ok(Ok(x)) => x,
            Ok(Err(e)) => return format!("PRELUDE-FAILED {}", err_name(&e)),
            Err(_) => return "PRELUDE-PANIC".to_string(),
        };
        // let the flow of the prelude reach the link
        for _ in 0..3 {
            let _ = base.pipe.read_now();
            base.pipe.write_now();
            barrier().await;
        }
        // ---- the application: the sends one after the other ----
        let t0 = tokio::time::Instant::now();
        let log: Arc<Mutex<Vec<SendRec>>> = Arc::new(Mutex::new(Vec::new()));
        let log2 = log.clone();
        let ops2 = ops.clone();
        let app = tokio::spawn(async move {
            let mut sender = sender;
            let mut seq: u32 = 0;
            let mut dead = false;
            for op in ops2 {
                if dead {
                    break;
                }
                let (size, ks): (usize, Vec<Option<u64>>) = match op {
                    Op::Gap(ms) => {
                        tokio::time::sleep(Duration::from_millis(ms)).await;
                        continue;
                    }
                    Op::Send { size, k } => (size, vec![k]),
                    Op::Loop { size, k, r } => (size, (0..r).map(|_| Some(k)).chain(std::iter::once(None)).collect()),
                };
                for k in ks {
                    let msg = message_of(seq, size);
                    let sendable = if presettle {
                        fe2o3_amqp::Sendable::builder().message(msg).settled(true).build()
                    } else {
                        fe2o3_amqp::Sendable::builder().message(msg).build()
                    };
                    let r = CancelAfter::new(sender.send(sendable), k).await;
                    let (res, polls, done) = match r {
                        Ca::Done(Ok(o), p) => (
                            format!(
                                "ok:{}",
                                match o {
                                    Outcome::Accepted(_) => "A",
                                    Outcome::Rejected(_) => "R",
                                    Outcome::Released(_) => "L",
                                    Outcome::Modified(_) => "M",
                                    #[allow(unreachable_patterns)]
                                    _ => "?",
                                }
                            ),
                            p,
                            true,
                        ),
                        Ca::Done(Err(e), p) => (format!("err:{}", err_name(&format!("{:?}", e))), p, true),
                        Ca::Cancelled(p) => ("cancel".to_string(), p, false),
                        Ca::Stalled(p) => {
                            dead = true;
                            ("stall".to_string(), p, true)
                        }
                    };
                    log2.lock().unwrap().push(SendRec { seq, size, k, res, polls });
                    seq += 1;
                    if done {
                        break;
                    }
                }
            }
            sender
        });
        // ---- the peer ----
        let mut cur: Option<Cur> = None;
        let mut dels: Vec<Del> = Vec::new();
        let mut frames_log: Vec<String> = Vec::new();
        let mut interleaved: Vec<String> = Vec::new();
        let mut due: Vec<(u64, u32)> = Vec::new();
        let mut awaiting_settle: Vec<u32> = Vec::new(); // mode second: outcome sent, the sender's settlement not yet seen
        let mut settled_count: u32 = 0; // mode second with a window: deliveries the sender has settled (or sent settled)
        let mut late_done = false;
        let mut idle = 0u32;
        let mut app_done_at: Option<u64> = None;
        loop {
            let t = tokio::time::Instant::now().saturating_duration_since(t0).as_millis() as u64;
            base.pipe.moved = false;
            let reading = !paused(&kn.pauses, t);
            if reading {
                for w in base.pipe.read_now() {
                    if let Some((perf, payload)) = base.on_wire(w, &kn, Role::Receiver, mms) {
                        if let Performative::Disposition(d) = &perf {
                            // mode second: the sender settles what we have given an outcome for
                            if d.settled && matches!(d.role, Role::Sender) {
                                let last = d.last.unwrap_or(d.first);
                                let before = awaiting_settle.len();
                                awaiting_settle.retain(|x| !(d.first <= *x && *x <= last));
                                let done = before - awaiting_settle.len();
                                if done > 0 {
                                    if let Credit::Win(w) = cr {
                                        settled_count = settled_count.wrapping_add(done as u32);
                                        base.pipe.queue(&frame_bytes(0, &flow(base.nii, settled_count, w), &[]));
                                    }
                                }
                            }
                        }
                        if let Performative::Transfer(tr) = perf {
                            base.nii = base.nii.wrapping_add(1);
                            let tagv: Option<Vec<u8>> = tr.delivery_tag.as_ref().map(|t| t.to_vec());
                            frames_log.push(format!(
                                "h{}.d{}.t{}.m{}.a{}.s{}.p{}",
                                tr.handle.0,
                                opt_u32(tr.delivery_id),
                                tag_show(&tagv),
                                tr.more as u8,
                                tr.aborted as u8,
                                opt_bool(tr.settled),
                                payload.len()
                            ));
                            // a frame that names another delivery than the one in progress starts a new one:
                            // the one in progress stays unfinished for ever
                            if let Some(c) = &cur {
                                let other_id = matches!((c.did, tr.delivery_id), (Some(x), Some(y)) if x != y);
                                let other_tag = matches!((&c.tag, &tagv), (Some(x), Some(y)) if x != y);
                                if other_id || other_tag {
                                    interleaved.push(format!("d{}/t{}>d{}/t{}", opt_u32(c.did), tag_show(&c.tag), opt_u32(tr.delivery_id), tag_show(&tagv)));
                                    let c = cur.take().unwrap();
                                    dels.push(Del { did: c.did, tag: c.tag, frames: c.frames, len: c.payload.len(), hash: fnv(&c.payload), status: 'p', settled: c.settled });
                                }
                            }
                            if cur.is_none() {
                                dc = dc.wrapping_add(1);
                                cur = Some(Cur { did: tr.delivery_id, tag: tagv.clone(), settled: tr.settled.unwrap_or(false), frames: 0, payload: Vec::new() });
                            }
                            let c = cur.as_mut().unwrap();
                            c.frames += 1;
                            if tr.settled == Some(true) {
                                c.settled = true;
                            }
                            if tr.aborted {
                                let c = cur.take().unwrap();
                                dels.push(Del { did: c.did, tag: c.tag, frames: c.frames, len: c.payload.len(), hash: fnv(&c.payload), status: 'a', settled: c.settled });
                            } else {
                                c.payload.extend_from_slice(&payload);
                                if !tr.more {
                                    let c = cur.take().unwrap();
                                    if !c.settled {
                                        if let Some(d) = c.did {
                                            due.push((t + sd, d));
                                        }
                                    }
                                    dels.push(Del { did: c.did, tag: c.tag, frames: c.frames, len: c.payload.len(), hash: fnv(&c.payload), status: 'c', settled: c.settled });
                                    if let Credit::Win(w) = cr {
                                        // mode second: the window moves on when the sender has settled (see above)
                                        let waits = kn.rsm2 && !dels.last().map(|d| d.settled).unwrap_or(true);
                                        if !waits {
                                            settled_count = settled_count.wrapping_add(1);
                                            base.pipe.queue(&frame_bytes(0, &flow(base.nii, if kn.rsm2 { settled_count } else { dc }, w), &[]));
                                        }
                                    }
                                }
                            }
                        }
                    }
                }
            }
            if let Credit::Late(n, at) = cr {
                if !late_done && t >= at {
                    late_done = true;
                    granted += n as u64;
                    base.pipe.queue(&frame_bytes(0, &flow(base.nii, dc, n), &[]));
                }
            }
            let mut k = 0;
            while k < due.len() {
                if due[k].0 <= t {
                    let (_, d) = due.remove(k);
                    if kn.rsm2 {
                        awaiting_settle.push(d);
                    }
                    let disp = Disposition { role: Role::Receiver, first: d, last: None, settled: !kn.rsm2, state: Some(DeliveryState::Accepted(Accepted {})), batchable: false };
                    base.pipe.queue(&frame_bytes(0, &Performative::Disposition(disp), &[]));
                } else {
                    k += 1;
                }
            }
            base.pipe.write_now();
            let busy = base.pipe.moved || !due.is_empty() || !base.pipe.outbox.is_empty() || !reading || (matches!(cr, Credit::Late(..)) && !late_done);
            if busy {
                idle = 0;
            } else {
                idle += 1;
            }
            if app.is_finished() {
                if app_done_at.is_none() {
                    app_done_at = Some(t);
                }
                if idle >= 40 {
                    break;
                }
            }
            if base.pipe.eof || t > 20 * STALL_MS {
                break;
            }
            // nothing has moved for a while: the peer keeps reading, in larger steps of virtual time
            let step = if idle >= 260 { 5000 } else if idle >= 200 { 500 } else { 1 };
            tokio::time::sleep(Duration::from_millis(step)).await;
        }
        let app_finished = app.is_finished();
        let mut close = "-".to_string();
        let conn_up = !base.pipe.eof && !base.closed;
        let mut panic = false;
        let mut utags: Vec<String> = Vec::new();
        if app_finished {
            match app.await {
                Ok(sender) => {
                    // what the link still holds as unsettled: a send that was dropped before its transfer left must not stay here
                    // (it would be reported as unsettled on a resume and sent again)
                    utags = fe2o3_amqp::verif::sender_unsettled_tags(&sender).into_iter().map(|t| tag_show(&Some(t))).collect();
                    // an orderly close of the link: nothing of a delivery may be left unfinished by then
                    let ct = tokio::spawn(async move { sender.close().await });
                    for _ in 0..200 {
                        for w in base.pipe.read_now() {
                            let _ = base.on_wire(w, &kn, Role::Receiver, mms);
                        }
                        base.pipe.write_now();
                        barrier().await;
                        if ct.is_finished() {
                            break;
                        }
                    }
                    close = if ct.is_finished() {
                        match ct.await {
                            Ok(Ok(())) => "ok".into(),
                            Ok(Err(e)) => format!("err:{}", err_name(&format!("{:?}", e))),
                            Err(_) => {
                                panic = true;
                                "PANIC".into()
                            }
                        }
                    } else {
                        ct.abort();
                        "pending".into()
                    };
                }
                Err(_) => panic = true,
            }
        } else {
            app.abort();
        }
        if let Some(c) = cur.take() {
            dels.push(Del { did: c.did, tag: c.tag, frames: c.frames, len: c.payload.len(), hash: fnv(&c.payload), status: 'p', settled: c.settled });
        }
        // ---- trace ----
        let sends: Vec<String> = log.lock().unwrap().iter().map(|s| format!("{},{},{},{},{}", s.seq, s.size, kshow(s.k), s.res, s.polls)).collect();
        let wire: Vec<String> = dels
            .iter()
            .map(|d| format!("{},{},{},{},{:016x},{},{}", opt_u32(d.did), tag_show(&d.tag), d.frames, d.len, d.hash, d.status, if d.settled { 's' } else { 'u' }))
            .collect();
        format!(
            "S: {} | W: {} | X: {} | F: {} | E: conn={} app={} granted={} close={} unsettled={} utags={} events={}{}",
            sends.join(" ; "),
            wire.join(" ; "),
            interleaved.join(","),
            frames_log.join(","),
            if conn_up { "up" } else { "down" },
            if app_finished { "done" } else { "PENDING" },
            granted,
            close,
            if awaiting_settle.is_empty() { "-".to_string() } else { awaiting_settle.iter().map(|x| x.to_string()).collect::<Vec<_>>().join("+") },
            if utags.is_empty() { "-".to_string() } else { utags.join("+") },
            base.link_events.join(","),
            if panic { " PANIC" } else { "" }
        )
    })
}

fn section<'a>(trace: &'a str, name: &str) -> &'a str {
    for part in trace.split(" | ") {
        if let Some(r) = part.strip_prefix(name) {
            return r.trim();
        }
    }
    ""
}

pub fn oracle_tx(line: &str, trace: &str) -> Vec<String> {
    let mut v = Vec::new();
    if trace.contains("PANIC") {
        v.push(format!("c16-panic: {}", trace));
        return v;
    }
    if trace.starts_with("PRELUDE") {
        v.push(format!("c16-prelude-failed: {}", trace));
        return v;
    }
    let rest = line.strip_prefix("txc tx ").unwrap();
    let (hd, script) = rest.split_once('|').unwrap();
    let hw: Vec<&str> = hd.split_whitespace().collect();
    let ops = parse_ops(script);
    let attempts_max = max_attempts(&ops) as u64;
    let crs = field(&hw, "cr");
    let windowed = crs.starts_with("win");
    // sends
    struct S {
        seq: u32,
        size: usize,
        k: String,
        res: String,
        polls: u64,
    }
    let sends: Vec<S> = section(trace, "S:")
        .split(';')
        .map(|s| s.trim())
        .filter(|s| !s.is_empty())
        .map(|s| {
            let p: Vec<&str> = s.split(',').collect();
            S { seq: p[0].parse().unwrap(), size: p[1].parse().unwrap(), k: p[2].to_string(), res: p[3].to_string(), polls: p[4].parse().unwrap() }
        })
        .collect();
    struct W {
        did: String,
        tag: String,
        frames: u32,
        len: usize,
        hash: String,
        status: String,
    }
    let wire: Vec<W> = section(trace, "W:")
        .split(';')
        .map(|s| s.trim())
        .filter(|s| !s.is_empty())
        .map(|s| {
            let p: Vec<&str> = s.split(',').collect();
            W { did: p[0].to_string(), tag: p[1].to_string(), frames: p[2].parse().unwrap(), len: p[3].parse().unwrap(), hash: p[4].to_string(), status: p[5].to_string() }
        })
        .collect();
    let env = section(trace, "E:");
    let ew: Vec<&str> = env.split_whitespace().collect();
    let conn_up = field(&ew, "conn") == "up";
    let granted: u64 = field(&ew, "granted").parse().unwrap_or(0);
    let events = field(&ew, "events");
    // the endpoint tore something down with an error although the peer is honest
    let endpoint_error = events.contains("e(");
    // expected payloads of every call made
    let expect: Vec<(u32, usize, String)> = sends
        .iter()
        .map(|s| {
            let b = encoded_message(s.seq, s.size);
            (s.seq, b.len(), format!("{:016x}", fnv(&b)))
        })
        .collect();
    // ---- partial / interleaved ----
    let x = section(trace, "X:");
    if !x.is_empty() {
        v.push(format!("c16-send-partial: frames of two deliveries interleave on the link: {}", x));
    }
    let mms_limit: Option<usize> = field(&hw, "mms").parse().ok();
    for w in &wire {
        if w.status == "p" {
            // whose message is it?  A message that does not exceed the peer's max-message-size is handed to the session in
            // ONE piece: a partial delivery of such a message is not the recorded max-message-size defect
            let owner = sends.iter().map(|s| encoded_message(s.seq, s.size)).find(|enc| enc.len() >= w.len && format!("{:016x}", fnv(&enc[..w.len])) == w.hash);
            let unsplit = match (&owner, mms_limit) {
                (Some(enc), Some(m)) => m == 0 || enc.len() <= m,
                (Some(_), None) => true,
                _ => false,
            };
            v.push(format!(
                "{}: delivery id={} tag={} was begun ({} frame(s), {} bytes, more=true) and never finished{}",
                if unsplit { "c16-send-partial-unsplit" } else { "c16-send-partial" },
                w.did,
                w.tag,
                w.frames,
                w.len,
                if unsplit { " although the message does not exceed the peer's max-message-size (it must be handed over in one piece)" } else { "" }
            ));
        }
    }
    // ---- a delivery the link holds as unsettled although nothing of it ever left ----
    let utags = field(&ew, "utags");
    // (a call that is still in progress - stalled behind a full channel - legitimately has its entry already)
    let all_returned = sends.iter().all(|s| s.res.starts_with("ok") || s.res == "cancel");
    if utags != "-" && !utags.is_empty() && all_returned {
        for t in utags.split('+') {
            if !wire.iter().any(|w| w.tag == t) {
                v.push(format!(
                    "c16-send-dropped-left-unsettled: the link still holds tag {} as unsettled although no transfer with that tag was ever written: a resume would report it and the message would be sent again",
                    t
                ));
            }
        }
    }
    // ---- corrupted / duplicated / lost / reordered ----
    let mut arrived: Vec<Option<u32>> = Vec::new(); // per completed delivery the call it belongs to
    for w in wire.iter().filter(|w| w.status == "c") {
        let m = expect.iter().find(|(_, l, h)| *l == w.len && *h == w.hash).map(|(s, _, _)| *s);
        if m.is_none() {
            v.push(format!(
                "c16-send-corrupted: the completed delivery id={} tag={} ({} bytes, hash {}) is none of the messages the application sent",
                w.did, w.tag, w.len, w.hash
            ));
        }
        arrived.push(m);
    }
    for s in &sends {
        let n = arrived.iter().filter(|a| **a == Some(s.seq)).count();
        if n > 1 {
            v.push(format!("c16-send-duplicated: the message of call #{} (k={}, {}) arrived {} times", s.seq, s.k, s.res, n));
        }
        if n == 0 && s.res.starts_with("ok") && conn_up && !endpoint_error {
            v.push(format!("c16-send-lost: call #{} returned {} but its message never arrived", s.seq, s.res));
        }
    }
    let order: Vec<u32> = arrived.iter().filter_map(|a| *a).collect();
    let mut dedup: Vec<u32> = Vec::new();
    for o in &order {
        if !dedup.contains(o) {
            dedup.push(*o);
        }
    }
    if dedup.windows(2).any(|p| p[0] > p[1]) {
        v.push(format!("c16-send-reordered: the messages arrived in the order of calls {:?}", dedup));
    }
    // ---- starvation / unusable link ----
    for s in &sends {
        // a call that is still pending at the bound was never cancelled, whatever its k
        if s.res == "stall" && conn_up && !endpoint_error {
            if !windowed && granted >= attempts_max + 10 {
                v.push(format!(
                    "c16-send-starved: call #{} (never cancelled) is still pending after {} s at poll {} although the peer granted {} credits for at most {} calls and reads everything",
                    s.seq,
                    STALL_MS / 1000,
                    s.polls,
                    granted,
                    attempts_max
                ));
            } else if !windowed && granted >= wire.len() as u64 + 1 {
                // the tighter reading: the receiver granted more credit than the number of deliveries that ever
                // reached it (finished or not) plus this one; the rest was consumed by calls that were cancelled
                // before anything was handed to the session, and the receiver is never told
                v.push(format!(
                    "c16-send-starved-leak: call #{} (never cancelled) is still pending after {} s at poll {}: the peer granted {} credits, only {} deliveries ever reached it, it reads everything; the credit was consumed by cancelled calls that sent nothing",
                    s.seq,
                    STALL_MS / 1000,
                    s.polls,
                    granted,
                    wire.len()
                ));
            } else if windowed {
                v.push(format!(
                    "c16-send-starved-window: call #{} (never cancelled) is still pending after {} s at poll {} although the receiver renews its credit window ({}) after every delivery and reads everything",
                    s.seq,
                    STALL_MS / 1000,
                    s.polls,
                    crs
                ));
            }
        }
        if s.res.starts_with("err") {
            v.push(format!("c16-link-unusable: call #{} (k={}) returned {} although the peer did nothing wrong", s.seq, s.k, s.res));
        }
    }
    if endpoint_error {
        v.push(format!("c16-link-unusable: the endpoint ended the link/session/connection with an error: {}", events));
    }
    // ---- a message sent pre-settled completes as accepted without waiting for anything (C02) ----
    // (in snd-settle-mode unsettled the link sends everything unsettled, whatever the message asks for: nothing to check)
    if hw.iter().any(|x| *x == "pre=1") && field(&hw, "ssm") != "u" && conn_up && !endpoint_error {
        for sd in sends.iter().filter(|s| s.k == "inf") {
            if sd.res != "ok:A" {
                v.push(format!("c02-presettled-send-waits: call #{} sent its message pre-settled (settled=true) and was never dropped, yet it returned {} instead of completing as accepted", sd.seq, sd.res));
            }
        }
        if wire.iter().any(|w| w.status == "c" && !trace.contains(".s1.")) {
            v.push("c02-presettled-not-on-wire: a message sent with settled=true went out unsettled".to_string());
        }
    }
    // ---- scripts without any cancellation: the plain contract of the sending link (C08, C11) ----
    if sends.iter().all(|s| s.k == "inf") && conn_up && !endpoint_error {
        // a delivery that the link cuts into several transfers (max-message-size) is one delivery: the later
        // transfers carry no new delivery-id / tag, nothing interleaves, and it is finished
        if !x.is_empty() || wire.iter().any(|w| w.status == "p") {
            v.push(format!(
                "c11-split-delivery-broken: no call was cancelled, yet the transfers of one message do not form one delivery (interleaved: [{}], unfinished: {})",
                x,
                wire.iter().filter(|w| w.status == "p").count()
            ));
        }
        // one credit per delivery, however many transfers carry it: the tags (= delivery-count when the credit was
        // taken) of the deliveries begun are 0, 1, 2, ...
        let tags: Vec<u64> = wire.iter().filter_map(|w| w.tag.parse::<u64>().ok()).collect();
        if tags.iter().enumerate().any(|(i, t)| *t != i as u64) {
            v.push(format!("c08-credit-not-per-delivery: the deliveries begun carry the tags {:?}: delivery-count did not advance by one per delivery", tags));
        }
        if sends.iter().any(|s| s.res == "stall") && granted >= sends.len() as u64 {
            v.push(format!(
                "c08-credit-not-per-delivery: a send() is still pending although {} credits were granted for {} deliveries and the peer reads everything",
                granted,
                sends.len()
            ));
        }
    }
    // mode second: every outcome the peer has given must be settled by the sender, whether or not the send() that
    // produced the delivery is still waiting for it
    let unsettled = field(&ew, "unsettled");
    if conn_up && !unsettled.is_empty() && unsettled != "-" {
        v.push(format!("c16-send-never-settled: rcv-settle-mode second: the peer's outcome for deliveries {} was never settled by the sender (a receiver that counts on the settlement stops granting credit)", unsettled));
    }
    // a partial delivery never completes, so a receiver that renews its window per delivery stops granting: the
    // starvation that follows has the partial delivery as its cause
    if wire.iter().any(|w| w.status == "p") {
        for x in v.iter_mut() {
            if x.starts_with("c16-send-starved") {
                if let Some((class, rest)) = x.clone().split_once(':') {
                    *x = format!("{}-after-partial:{}", class, rest);
                }
            }
        }
    }
    v
}

// ------------------------------------------------------------------------------------------
// Part 2: recv by poll count
// ------------------------------------------------------------------------------------------

pub fn run_rx(line: &str) -> String {
    let rest = line.strip_prefix("txc rx ").unwrap();
    let (hd, script) = rest.split_once('|').unwrap();
    let hw: Vec<&str> = hd.split_whitespace().collect();
    let kn = knobs(&hw);
    let auto_accept = field(&hw, "acc") == "auto";
    let cm = field(&hw, "cm").to_string();
    let burst = field(&hw, "burst") == "1";
    let start: u64 = field(&hw, "start").parse().unwrap_or(0);
    let ks: Vec<Option<u64>> = field(&hw, "k").split(',').map(kparse).collect();
    let sizes: Vec<usize> = script.split(';').map(|s| s.trim()).filter(|s| !s.is_empty()).map(|s| s.parse().unwrap()).collect();
    let n_msgs = sizes.len();
    paused_rt().block_on(async move {
        let (a, b) = tokio::io::duplex(kn.pipe);
        let mut base = Base::new(b);
        let kn2 = kn.clone();
        let cm2 = cm.clone();
        let setup = tokio::spawn(async move {
            let mut cb = Connection::builder().container_id("c").max_frame_size(kn2.mfs);
            if let Some(n) = kn2.cb {
                cb = cb.buffer_size(n);
            }
            let mut conn = cb.open_with_stream(a).await.map_err(|e| format!("open {:?}", e))?;
            let mut sbld = Session::builder();
            if let Some(n) = kn2.sb {
                sbld = sbld.buffer_size(n);
            }
            let mut session = sbld.begin(&mut conn).await.map_err(|e| format!("begin {:?}", e))?;
            let mode = if let Some(n) = cm2.strip_prefix("auto:") { CreditMode::Auto(n.parse().unwrap()) } else { CreditMode::Manual };
            let mut rb = Receiver::builder().name("r").source("q").credit_mode(mode).auto_accept(auto_accept);
            if let Some(n) = kn2.lb {
                rb.buffer_size = n;
            }
            let receiver = rb.attach(&mut session).await.map_err(|e| format!("attach {:?}", e))?;
            Ok::<_, String>((conn, session, receiver))
        });
        // peer-side link state
        let mut credit: u32 = 0; // what the peer may still send
        let mut dc_snd: u32 = 0;
        let mut flows: Vec<String> = Vec::new();
        let mut disps: Vec<String> = Vec::new();
        let on_link = |perf: Performative, dc_snd: u32, credit: &mut u32, flows: &mut Vec<String>, disps: &mut Vec<String>| match perf {
            Performative::Flow(f) => {
                if f.handle.is_some() {
                    if let Some(c) = f.link_credit {
                        let dc_rcv = f.delivery_count.unwrap_or(0);
                        *credit = dc_rcv.wrapping_add(c).wrapping_sub(dc_snd);
                        if *credit > 0x8000_0000 {
                            *credit = 0;
                        }
                    }
                    flows.push(format!("{}.{}", opt_u32(f.delivery_count), opt_u32(f.link_credit)));
                }
            }
            Performative::Disposition(d) => {
                let st = match &d.state {
                    Some(DeliveryState::Accepted(_)) => "A",
                    Some(DeliveryState::Rejected(_)) => "R",
                    Some(DeliveryState::Released(_)) => "L",
                    Some(DeliveryState::Modified(_)) => "M",
                    Some(_) => "?",
                    None => "-",
                };
                disps.push(format!("{}.{}.{}.{}", d.first, d.last.unwrap_or(d.first), if d.settled { "s" } else { "u" }, st));
            }
            _ => {}
        };
        let mut ticks = 0;
        while !setup.is_finished() && ticks < 5000 {
            for w in base.pipe.read_now() {
                if let Some((p, _)) = base.on_wire(w, &kn, Role::Sender, None) {
                    on_link(p, dc_snd, &mut credit, &mut flows, &mut disps);
                }
            }
            base.pipe.write_now();
            barrier().await;
            ticks += 1;
        }
        if !setup.is_finished() {
            return "PRELUDE-FAILED pending".to_string();
        }
        let (_conn, _session, receiver) = match setup.await {
            Ok(Ok(x)) => x,
            Ok(Err(e)) => return format!("PRELUDE-FAILED {}", err_name(&e)),
            Err(_) => return "PRELUDE-PANIC".to_string(),
        };
        // ---- the application ----
        let t0 = tokio::time::Instant::now();
        let log: Arc<Mutex<Vec<String>>> = Arc::new(Mutex::new(Vec::new()));
        let log2 = log.clone();
        let manual_credit: Option<u32> = cm.strip_prefix("manual:").map(|n| n.parse().unwrap());
        let app = tokio::spawn(async move {
            let mut receiver = receiver;
            let mut got = 0usize;
            let mut attempts = 0usize;
            let mut cancels = 0u32;
            if let Some(c) = manual_credit {
                if let Err(e) = receiver.set_credit(c).await {
                    log2.lock().unwrap().push(format!("credit-err:{}", err_name(&format!("{:?}", e))));
                }
            }
            if start > 0 {
                tokio::time::sleep(Duration::from_millis(start)).await;
            }
            while got < n_msgs && attempts < 10000 {
                let k = ks[attempts % ks.len()];
                attempts += 1;
                let r = CancelAfter::new(receiver.recv::<Body<Value>>(), k).await;
                match r {
                    Ca::Done(Ok(d), p) => {
                        let (len, h) = match d.body() {
                            Body::Value(v) => match &v.0 {
                                Value::Binary(b) => (b.len(), fnv(b)),
                                other => {
                                    let e = serde_amqp::to_vec(other).unwrap_or_default();
                                    (e.len(), fnv(&e))
                                }
                            },
                            _ => (0, 0),
                        };
                        log2.lock().unwrap().push(format!("c{},ok,{},{},{:016x},{}", cancels, d.delivery_id(), len, h, p));
                        cancels = 0;
                        got += 1;
                        if !auto_accept {
                            match tokio::time::timeout(Duration::from_millis(STALL_MS), receiver.accept(&d)).await {
                                Ok(Ok(())) => {}
                                Ok(Err(e)) => log2.lock().unwrap().push(format!("accept-err:{}", err_name(&format!("{:?}", e)))),
                                Err(_) => {
                                    log2.lock().unwrap().push("accept-stall".into());
                                    break;
                                }
                            }
                        }
                        if let Some(c) = manual_credit {
                            if got % (c as usize) == 0 && got < n_msgs {
                                let _ = receiver.set_credit(c).await;
                            }
                        }
                    }
                    Ca::Done(Err(e), p) => {
                        log2.lock().unwrap().push(format!("c{},err:{},{}", cancels, err_name(&format!("{:?}", e)), p));
                        break;
                    }
                    Ca::Cancelled(_) => {
                        cancels += 1;
                        // the other branch of the select! loop ran
                        tokio::time::sleep(Duration::from_millis(1)).await;
                    }
                    Ca::Stalled(p) => {
                        log2.lock().unwrap().push(format!("c{},stall,{}", cancels, p));
                        break;
                    }
                }
            }
            if got < n_msgs && attempts >= 10000 {
                log2.lock().unwrap().push(format!("c{},gaveup", cancels));
            }
            receiver
        });
        // ---- the peer: an honest sender ----
        // queue of frames still to write, per message
        let mut next_msg = 0usize;
        let mut pending_frames: std::collections::VecDeque<Vec<u8>> = Default::default();
        let mut sent_complete = 0usize;
        let mut frames_left_of: std::collections::VecDeque<usize> = Default::default();
        let mut idle = 0u32;
        loop {
            let t = tokio::time::Instant::now().saturating_duration_since(t0).as_millis() as u64;
            base.pipe.moved = false;
            let reading = !paused(&kn.pauses, t);
            if reading {
                for w in base.pipe.read_now() {
                    if let Some((p, _)) = base.on_wire(w, &kn, Role::Sender, None) {
                        on_link(p, dc_snd, &mut credit, &mut flows, &mut disps);
                    }
                }
            }
            // cut the messages it has credit for into frames
            while next_msg < n_msgs && credit > 0 && base.attached {
                let bytes = {
                    let m = message_of(next_msg as u32, sizes[next_msg]);
                    serde_amqp::to_vec(&fe2o3_amqp::types::messaging::message::__private::Serializable(&m)).unwrap()
                };
                let chunk = (kn.mfs as usize).saturating_sub(64).max(16);
                let pieces: Vec<&[u8]> = bytes.chunks(chunk).collect();
                let np = pieces.len();
                for (i, pc) in pieces.iter().enumerate() {
                    let tr = Transfer {
                        handle: PEER_HANDLE.into(),
                        delivery_id: if i == 0 { Some(next_msg as u32) } else { None },
                        delivery_tag: if i == 0 { Some(Binary::from((next_msg as u32).to_be_bytes().to_vec())) } else { None },
                        message_format: if i == 0 { Some(0) } else { None },
                        settled: if i == 0 { Some(false) } else { None },
                        more: i + 1 != np,
                        rcv_settle_mode: None,
                        state: None,
                        resume: false,
                        aborted: false,
                        batchable: false,
                    };
                    pending_frames.push_back(frame_bytes(0, &Performative::Transfer(tr), pc));
                }
                frames_left_of.push_back(np);
                credit -= 1;
                dc_snd = dc_snd.wrapping_add(1);
                next_msg += 1;
            }
            // one frame per tick, or everything at once
            let mut budget = if burst { usize::MAX } else { 1 };
            while budget > 0 && base.pipe.outbox.len() < 4 * kn.mfs as usize {
                match pending_frames.pop_front() {
                    Some(f) => {
                        base.pipe.queue(&f);
                        if let Some(n) = frames_left_of.front_mut() {
                            *n -= 1;
                            if *n == 0 {
                                frames_left_of.pop_front();
                                sent_complete += 1;
                            }
                        }
                        budget -= 1;
                    }
                    None => break,
                }
            }
            base.pipe.write_now();
            let busy = base.pipe.moved || !base.pipe.outbox.is_empty() || !pending_frames.is_empty() || !reading;
            if busy {
                idle = 0;
            } else {
                idle += 1;
            }
            if app.is_finished() && idle >= 40 {
                break;
            }
            if base.pipe.eof || t > 20 * STALL_MS {
                break;
            }
            let step = if idle >= 260 { 5000 } else if idle >= 200 { 500 } else { 1 };
            tokio::time::sleep(Duration::from_millis(step)).await;
        }
        let app_finished = app.is_finished();
        let mut panic = false;
        let mut fin = String::new();
        let mut close = "-".to_string();
        if app_finished {
            match app.await {
                Ok(r) => {
                    let (tags, (lc, ldc, _)) = fe2o3_amqp::verif::receiver_unsettled_and_flow(&r);
                    fin = format!("lcredit={} ldc={} unsettled={}", lc, ldc, tags.len());
                    // an orderly close: it only stays pending when the engines no longer move frames
                    let ct = tokio::spawn(async move { r.close().await });
                    for _ in 0..200 {
                        for w in base.pipe.read_now() {
                            let _ = base.on_wire(w, &kn, Role::Sender, None);
                        }
                        base.pipe.write_now();
                        barrier().await;
                        if ct.is_finished() {
                            break;
                        }
                    }
                    close = if ct.is_finished() {
                        match ct.await {
                            Ok(Ok(())) => "ok".into(),
                            Ok(Err(e)) => format!("err:{}", err_name(&format!("{:?}", e))),
                            Err(_) => {
                                panic = true;
                                "PANIC".into()
                            }
                        }
                    } else {
                        ct.abort();
                        "pending".into()
                    };
                }
                Err(_) => panic = true,
            }
        } else {
            app.abort();
        }
        let conn_up = !base.pipe.eof && !base.closed;
        format!(
            "R: {} | P: {} | Fl: {} | E: conn={} app={} sent={} queued={} pcredit={} {} close={} events={}{}",
            log.lock().unwrap().join(" ; "),
            disps.join(","),
            flows.join(","),
            if conn_up { "up" } else { "down" },
            if app_finished { "done" } else { "PENDING" },
            sent_complete,
            next_msg,
            credit,
            fin,
            close,
            base.link_events.join(","),
            if panic { " PANIC" } else { "" }
        )
    })
}

pub fn oracle_rx(line: &str, trace: &str) -> Vec<String> {
    let mut v = Vec::new();
    if trace.contains("PANIC") {
        v.push(format!("c16-panic: {}", trace));
        return v;
    }
    if trace.starts_with("PRELUDE") {
        v.push(format!("c16-prelude-failed: {}", trace));
        return v;
    }
    let rest = line.strip_prefix("txc rx ").unwrap();
    let (_hd, script) = rest.split_once('|').unwrap();
    let sizes: Vec<usize> = script.split(';').map(|s| s.trim()).filter(|s| !s.is_empty()).map(|s| s.parse().unwrap()).collect();
    let n = sizes.len();
    let env = section(trace, "E:");
    let ew: Vec<&str> = env.split_whitespace().collect();
    let conn_up = field(&ew, "conn") == "up";
    let sent: usize = field(&ew, "sent").parse().unwrap_or(0);
    let events = field(&ew, "events");
    let endpoint_error = events.contains("e(");
    // returned deliveries
    let mut got: Vec<(u32, usize, String)> = Vec::new();
    let mut other: Vec<String> = Vec::new();
    for r in section(trace, "R:").split(';').map(|s| s.trim()).filter(|s| !s.is_empty()) {
        let p: Vec<&str> = r.split(',').collect();
        if p.len() >= 6 && p[1] == "ok" {
            got.push((p[2].parse().unwrap(), p[3].parse().unwrap(), p[4].to_string()));
        } else {
            other.push(r.to_string());
        }
    }
    for (i, (did, len, h)) in got.iter().enumerate() {
        let d = *did as usize;
        if d >= n {
            v.push(format!("c16-recv-corrupted: recv() returned delivery {} which was never sent", did));
            continue;
        }
        let b = body_bytes(*did, sizes[d]);
        if *len != b.len() || *h != format!("{:016x}", fnv(&b)) {
            v.push(format!("c16-recv-corrupted: delivery {} was returned with a body of {} bytes (hash {}), {} bytes were sent", did, len, h, b.len()));
        }
        if got[..i].iter().any(|(x, _, _)| x == did) {
            v.push(format!("c16-recv-duplicated: delivery {} was returned twice", did));
        }
        if i > 0 && got[i - 1].0 > *did {
            v.push(format!("c16-recv-reordered: delivery {} was returned after delivery {}", did, got[i - 1].0));
        }
    }
    if conn_up && !endpoint_error {
        for d in 0..sent.min(n) {
            if !got.iter().any(|(x, _, _)| *x as usize == d) {
                v.push(format!(
                    "c16-recv-lost: delivery {} was sent completely but no recv() call returned it (the application re-issued recv() until: {})",
                    d,
                    other.join(" / ")
                ));
            }
        }
        if sent < n {
            v.push(format!(
                "c16-recv-starved: the peer could only send {} of {} messages: no credit left ({}) although the application kept calling recv()",
                sent, n, env
            ));
        }
    }
    for o in &other {
        if o.contains("err:") || o.contains("accept-err") || o.contains("credit-err") {
            v.push(format!("c16-link-unusable: {} although the peer did nothing wrong", o));
        }
    }
    if endpoint_error {
        v.push(format!("c16-link-unusable: the endpoint ended the link/session/connection with an error: {}", events));
    }
    // acceptances on the wire
    let mut acc: Vec<u32> = vec![0; n];
    for d in section(trace, "P:").split(',').filter(|s| !s.is_empty()) {
        let p: Vec<&str> = d.split('.').collect();
        let (f, l): (u32, u32) = (p[0].parse().unwrap(), p[1].parse().unwrap());
        if p[3] == "A" {
            let mut i = f;
            while i <= l && (i as usize) < n {
                acc[i as usize] += 1;
                i += 1;
            }
        }
    }
    if conn_up && !endpoint_error {
        for (did, _, _) in &got {
            let d = *did as usize;
            if d < n && acc[d] == 0 {
                v.push(format!("c16-recv-accept-missing: delivery {} was returned by recv() but never accepted on the wire", did));
            }
        }
    }
    for (d, c) in acc.iter().enumerate() {
        if *c > 1 {
            v.push(format!("c16-recv-accept-duplicated: delivery {} was accepted {} times on the wire", d, c));
        }
    }
    v
}

// ------------------------------------------------------------------------------------------
// dispatch, generation, driver
// ------------------------------------------------------------------------------------------

pub fn run_case(line: &str) -> String {
    if line.starts_with("txc tx ") {
        run_tx(line)
    } else if line.starts_with("txc rx ") {
        run_rx(line)
    } else {
        "BAD-CASE".to_string()
    }
}

pub fn direct_oracle(line: &str, trace: &str) -> Vec<String> {
    if trace == "HARNESS-PANIC" {
        return vec![format!("c16-panic: the case panicked: {}", line)];
    }
    let v = if line.starts_with("txc tx ") {
        oracle_tx(line, trace)
    } else if line.starts_with("txc rx ") {
        oracle_rx(line, trace)
    } else {
        vec![]
    };
    // The orderly close of the link at the end of the case stays pending only when the engines no longer move
    // frames although the peer reads and answers everything (connection and session engine each wait for room in
    // the other's bounded channel). What was lost / starved / left unfinished then gets its own signature: the
    // property is violated all the same, but not (only) by the dropped future.
    let env = section(trace, "E:");
    let ew: Vec<&str> = env.split_whitespace().collect();
    if field(&ew, "close") == "pending" {
        v.into_iter()
            .map(|x| match x.split_once(':') {
                Some((c, rest)) => format!("{}-wedged:{} [the engines are wedged: the final detach never reached the wire]", c.trim_end_matches("-after-partial").trim_end_matches("-unsplit"), rest),
                None => x,
            })
            .collect()
    } else {
        v
    }
}

fn pick_cap(r: &mut Rng) -> String {
    match r.below(8) {
        0..=2 => "1".into(),
        3..=4 => "2".into(),
        5 => "4".into(),
        _ => "d".into(),
    }
}

fn size_classes(mfs: u32) -> [usize; 5] {
    let m = mfs as usize;
    [10, m * 9 / 10, m * 3 / 2, m * 3, m * 6]
}

fn gen_pause(r: &mut Rng) -> String {
    match r.below(5) {
        0 => "-".into(),
        1..=2 => format!("0..{}", r.range(5, 60)),
        3 => {
            let a = r.below(6);
            format!("{}..{}", a, a + r.range(3, 40))
        }
        _ => {
            let b = r.range(4, 20);
            let c = b + r.range(2, 10);
            format!("0..{},{}..{}", b, c, c + r.range(3, 30))
        }
    }
}

pub fn gen_tx(r: &mut Rng, thorough: bool) -> String {
    let mfs = *r.pick(&[512u32, 1024]);
    let sizes = size_classes(mfs);
    let n_ops = r.range(2, if thorough { 14 } else { 9 });
    let mut ops: Vec<String> = Vec::new();
    for _ in 0..n_ops {
        let size = match r.below(10) {
            0..=2 => sizes[0],
            3..=4 => sizes[1],
            5..=6 => sizes[2],
            7..=8 => sizes[3],
            _ => sizes[4],
        };
        match r.below(20) {
            0..=6 => ops.push(format!("{}:inf", size)),
            7..=14 => ops.push(format!("{}:{}", size, r.range(1, 4))),
            15..=16 => ops.push(format!("{}:{}", size, r.range(5, 9))),
            17..=18 => ops.push(format!("L{}:{}:{}", size, r.range(1, 3), r.range(2, 6))),
            _ => ops.push(format!("g{}", r.range(1, 30))),
        }
    }
    ops.push(format!("{}:inf", *r.pick(&sizes[..4])));
    let attempts = max_attempts(&parse_ops(&ops.join(" ; ")));
    let parsed = parse_ops(&ops.join(" ; "));
    let never_cancelled = parsed.iter().filter(|o| matches!(o, Op::Send { k: None, .. } | Op::Loop { .. })).count() as u32;
    let cr = match r.below(9) {
        // exactly enough for the calls that are never cancelled, plus some of the others
        8 => format!("up:{}", never_cancelled + r.below((attempts - never_cancelled) as u64 + 1) as u32),
        0..=3 => format!("up:{}", attempts + 10 + r.below(3) as u32),
        4..=5 => format!("late:{}:{}", attempts + 10, r.range(1, 40)),
        _ => format!("win:{}", r.range(1, 3)),
    };
    let mms = if r.below(6) == 0 { (*r.pick(&[100u64, 200, 400])).to_string() } else { "-".into() };
    format!(
        "txc tx mfs={} cb={} sb={} pipe={} ssm={} mms={} cr={} pause={} sd={} | {}",
        mfs,
        pick_cap(r),
        pick_cap(r),
        *r.pick(&[64usize, 128, 256, 512]),
        if r.below(2) == 0 { "s" } else { "u" },
        mms,
        cr,
        gen_pause(r),
        *r.pick(&[0u64, 0, 1, 3, 10]),
        ops.join(" ; ")
    )
    .replacen(" ssm=u ", if r.below(3) == 0 { " ssm=u rsm=2 " } else { " ssm=u " }, 1)
}

pub fn gen_rx(r: &mut Rng, _thorough: bool) -> String {
    let mfs = *r.pick(&[512u32, 1024]);
    let sizes = size_classes(mfs);
    let n = r.range(1, 8);
    let msgs: Vec<String> = (0..n)
        .map(|_| {
            let s = match r.below(10) {
                0..=4 => sizes[0],
                5..=6 => sizes[1],
                7..=8 => sizes[2],
                _ => sizes[3],
            };
            s.to_string()
        })
        .collect();
    let cm = match r.below(6) {
        0 => "auto:1".to_string(),
        1 => "auto:2".to_string(),
        2 => format!("auto:{}", r.range(3, 6)),
        3 => format!("auto:{}", r.range(4, 12)),
        4 => format!("manual:{}", n + r.below(3)),
        _ => format!("manual:{}", r.range(1, n)),
    };
    let k = match r.below(6) {
        0 => "1".to_string(),
        1 => "2".to_string(),
        2 => r.range(3, 6).to_string(),
        3 => format!("{},{}", r.range(1, 3), r.range(1, 5)),
        4 => format!("{},inf", r.range(1, 3)),
        _ => format!("{},{},{}", r.range(1, 2), r.range(1, 4), r.range(2, 7)),
    };
    let start = match r.below(3) {
        0 => 0,
        1 => r.range(1, 10),
        _ => r.range(10, 50),
    };
    format!(
        "txc rx mfs={} cb={} sb={} pipe={} acc={} cm={} pause={} burst={} start={} k={} | {}",
        mfs,
        pick_cap(r),
        pick_cap(r),
        *r.pick(&[16usize, 32, 64, 256]),
        if r.below(3) != 0 { "auto" } else { "manual" },
        cm,
        gen_pause(r),
        r.below(2),
        start,
        k,
        msgs.join(" ; ")
    )
    .replacen(" pipe=", &format!("{} pipe=", match r.below(4) { 0 => " lb=1", 1 => " lb=2", _ => "" }), 1)
}

pub fn gen_case(r: &mut Rng, thorough: bool) -> String {
    if r.below(3) == 0 {
        gen_rx(r, thorough)
    } else {
        gen_tx(r, thorough)
    }
}

/// the systematic part: for a configuration and a message size, one target send cancelled at k = 1, 2, ... until
/// it completes without being cancelled; followed by sends that must go through
fn enum_tx(out: &mut Outputs, r: &mut Rng, thorough: bool, budget: usize) -> usize {
    let mut ran = 0;
    let mut confs: Vec<(u32, &str, &str, usize, &str, String, String)> = Vec::new();
    for mfs in [512u32, 1024] {
        for cb in ["1", "2", "4", "d"] {
            for sb in ["1", "2", "4", "d"] {
                for pipe in [64usize, 256, 512] {
                    for ssm in ["s", "u"] {
                        for pause in ["-", "0..30"] {
                            for cr in ["up", "late", "win"] {
                                confs.push((mfs, cb, sb, pipe, ssm, pause.to_string(), cr.to_string()));
                            }
                        }
                    }
                }
            }
        }
    }
    // a deterministic shuffle: the quick tier takes a prefix
    for i in (1..confs.len()).rev() {
        let j = r.below(i as u64 + 1) as usize;
        confs.swap(i, j);
    }
    'outer: for (mfs, cb, sb, pipe, ssm, pause, cr) in confs {
        let sizes = size_classes(mfs);
        let size = *r.pick(&sizes);
        // with the peer not reading, sends before the target fill the pipeline
        let prefill = if pause != "-" { r.range(2, 6) as usize } else { r.below(2) as usize };
        let kmax = if thorough { 16 } else { 10 };
        for k in 1..=kmax {
            if ran >= budget {
                break 'outer;
            }
            let mut ops: Vec<String> = Vec::new();
            for _ in 0..prefill {
                ops.push(format!("{}:{}", size, k));
            }
            ops.push(format!("{}:{}", size, k));
            ops.push("10:inf".to_string());
            ops.push(format!("{}:inf", size));
            let attempts = (prefill + 3) as u32;
            let crs = match cr.as_str() {
                "up" => format!("up:{}", attempts + 10),
                "late" => format!("late:{}:5", attempts + 10),
                _ => "win:1".to_string(),
            };
            let line = format!("txc tx mfs={} cb={} sb={} pipe={} ssm={} mms=- cr={} pause={} sd=1 | {}", mfs, cb, sb, pipe, ssm, crs, pause, ops.join(" ; "));
            let t = one(out, &line);
            ran += 1;
            out.count("enum_cases");
            // the target (and the sends before it) completed without being cancelled: larger k change nothing
            if !section(&t, "S:").contains("cancel") {
                break;
            }
        }
    }
    ran
}

fn one(out: &mut Outputs, line: &str) -> String {
    let l2 = line.to_string();
    let t = match std::panic::catch_unwind(move || run_case(&l2)) {
        Ok(t) => t,
        Err(_) => "HARNESS-PANIC".to_string(),
    };
    let hw: Vec<&str> = line.split('|').next().unwrap_or("").split_whitespace().collect();
    let part = hw.get(1).cloned().unwrap_or("?");
    out.count(&format!("part_{}", part));
    for key in ["mfs", "cb", "sb", "pipe"] {
        out.count(&format!("{}_{}={}", part, key, field(&hw, key)));
    }
    out.count(&format!("{}_pause={}", part, if field(&hw, "pause") == "-" { "none" } else if field(&hw, "pause").contains(',') { "two" } else { "one" }));
    if part == "tx" {
        out.count(&format!("tx_ssm={}", field(&hw, "ssm")));
        out.count(&format!("tx_cr={}", field(&hw, "cr").split(':').next().unwrap_or("?")));
        out.count(&format!("tx_mms={}", if field(&hw, "mms") == "-" { "none" } else { "set" }));
        let s = section(&t, "S:");
        let mut cancels_at: std::collections::BTreeSet<u64> = Default::default();
        for rec in s.split(';').map(|x| x.trim()).filter(|x| !x.is_empty()) {
            let p: Vec<&str> = rec.split(',').collect();
            if p.len() == 5 {
                out.count("tx_send_calls");
                let res = p[3].split(':').next().unwrap_or("?");
                out.count(&format!("tx_send_{}", res));
                if res == "cancel" {
                    cancels_at.insert(p[4].parse().unwrap_or(0));
                    out.count(&format!("tx_cancel_at_poll={}", p[4].parse::<u64>().map(|v| if v > 6 { "7+".to_string() } else { v.to_string() }).unwrap_or("?".into())));
                }
            }
        }
        let w = section(&t, "W:");
        for rec in w.split(';').map(|x| x.trim()).filter(|x| !x.is_empty()) {
            let p: Vec<&str> = rec.split(',').collect();
            if p.len() == 7 {
                out.count(&format!("tx_delivery_{}", p[5]));
                if p[2] != "1" {
                    out.count("tx_delivery_multiframe");
                }
            }
        }
        if line.contains("| L") || line.contains("; L") {
            out.count("tx_with_loop");
        }
        if !cancels_at.is_empty() && s.contains(",ok:") {
            out.nontrivial(line);
        }
    } else if part == "rx" {
        out.count(&format!("rx_acc={}", field(&hw, "acc")));
        out.count(&format!("rx_cm={}", field(&hw, "cm").split(':').next().unwrap_or("?")));
        out.count(&format!("rx_burst={}", field(&hw, "burst")));
        let rsec = section(&t, "R:");
        let mut any_cancel = false;
        for rec in rsec.split(';').map(|x| x.trim()).filter(|x| !x.is_empty()) {
            let p: Vec<&str> = rec.split(',').collect();
            if p.len() >= 2 {
                let c: u64 = p[0].trim_start_matches('c').parse().unwrap_or(0);
                out.add("rx_cancelled_recv_calls", c);
                any_cancel |= c > 0;
                if p[1] == "ok" {
                    out.count("rx_deliveries_returned");
                } else {
                    out.count(&format!("rx_other_{}", p[1].split(':').next().unwrap_or("?")));
                }
            }
        }
        if any_cancel && rsec.contains(",ok,") {
            out.nontrivial(line);
        }
    }
    for vv in direct_oracle(line, &t) {
        let class = vv.split(':').next().unwrap_or("?").to_string();
        out.violation(&class, &format!("{} | `{}` -> {}", vv, line, t), line);
    }
    out.case(line, &t);
    t
}

/// poll-count enumeration for recv: the same scenario with every k
fn enum_rx(out: &mut Outputs, r: &mut Rng, thorough: bool, budget: usize) -> usize {
    let mut ran = 0;
    let rounds = if thorough { 400 } else { 60 };
    'outer: for _ in 0..rounds {
        let base = gen_rx(r, thorough);
        let (hd, script) = base.split_once(" k=").unwrap();
        let script = script.split_once(" | ").unwrap().1;
        for k in 1..=(if thorough { 10 } else { 6 }) {
            if ran >= budget {
                break 'outer;
            }
            let line = format!("{} k={} | {}", hd, k, script);
            let t = one(out, &line);
            ran += 1;
            out.count("enum_cases");
            if !section(&t, "R:").split(';').any(|x| !x.trim().starts_with("c0,")) {
                break;
            }
        }
    }
    ran
}

pub fn run(seed: u64, n: u64, thorough: bool, corpus: &[String], dir: &str) {
    crate::codec::quiet_panics();
    let mut out = Outputs::new(dir);
    let mut r = Rng::new(seed);
    for l in corpus {
        if l.starts_with("txc ") {
            out.count("corpus_cases");
            one(&mut out, l);
        }
    }
    for l in KNOWN {
        out.count("known_cases");
        one(&mut out, l);
    }
    // no cancellation at all: messages the link cuts into 1..6 transfers (max-message-size), with exactly one credit per message
    for mms in ["-", "100", "200", "32"] {
        for ssm in ["u", "s"] {
            for cr in ["up:3", "win:1"] {
                out.count("plain_cases");
                one(&mut out, &format!("txc tx mfs=1024 cb=d sb=d pipe=512 ssm={} mms={} cr={} pause=- sd=0 | 300:inf ; 10:inf ; 500:inf", ssm, mms, cr));
            }
        }
    }
    // a message that encodes to exactly the max-message-size (and one byte around it), its send dropped at each of its first
    // polls while the link-to-session queue holds one frame, then a complete send on the same link
    for mms in [100usize, 200] {
        if let Some(sz) = size_for_encoded_len(1, mms) {
            for size in [sz - 1, sz, sz + 1] {
                for k in 1..=4 {
                    out.count("mms_boundary_cases");
                    one(&mut out, &format!("txc tx mfs=1024 cb=d sb=1 pipe=512 ssm=u mms={} cr=up:3 pause=- sd=0 | 10:inf ; {}:{} ; 100:inf", mms, size, k));
                }
                one(&mut out, &format!("txc tx mfs=1024 cb=d sb=d pipe=512 ssm=u mms={} cr=up:3 pause=- sd=0 | 10:inf ; {}:inf ; 100:inf", mms, size));
            }
        }
    }
    // pre-settled sends on a mixed-mode link (and on the other two modes)
    for ssm in ["m", "u", "s"] {
        for cr in ["up:3", "win:1"] {
            out.count("presettled_cases");
            one(&mut out, &format!("txc tx mfs=1024 cb=d sb=d pipe=512 ssm={} pre=1 mms=- cr={} pause=- sd=2 | 10:inf ; 300:inf ; 10:inf", ssm, cr));
        }
    }
    // a third of the budget for each systematic sweep, the rest random
    let n = n as usize;
    let e1 = enum_tx(&mut out, &mut r, thorough, n * 2 / 5);
    let e2 = enum_rx(&mut out, &mut r, thorough, n / 5);
    for _ in 0..n.saturating_sub(e1 + e2) {
        let line = gen_case(&mut r, thorough);
        out.count("random_cases");
        one(&mut out, &line);
    }
    out.finish(dir);
}

/// minimised witnesses of what the harness found (kept as regression seeds; run first)
pub const KNOWN: &[&str] = &[
    // D1 c16-send-partial: the peer's attach carries max-message-size=200; the link cuts the 308-byte payload into
    // two link frames and awaits room in the session's channel (capacity 1) between them; dropped there
    "txc tx mfs=512 cb=d sb=1 pipe=512 ssm=s mms=200 cr=up:12 pause=- sd=0 | 300:1 ; 10:inf",
    "txc tx mfs=512 cb=d sb=1 pipe=512 ssm=u mms=200 cr=up:13 pause=- sd=1 | 768:2 ; 10:inf",
    // D2 c16-recv-lost: auto-accept; recv() dropped while the accepting disposition waits for room in the session's channel
    "txc rx mfs=512 cb=d sb=1 pipe=512 acc=auto cm=manual:2 pause=- burst=1 start=10 k=1 | 10 ; 10",
    // D2b c16-recv-lost + c16-recv-starved: dropped while the credit-renewing flow waits for room: the flow is never sent
    "txc rx mfs=512 cb=d sb=1 pipe=512 acc=auto cm=auto:1 pause=- burst=1 start=0 k=2 | 10 ; 10",
    // D3 (-wedged, no cancellation involved): connection and session engine wait for each other
    "txc tx mfs=512 cb=1 sb=1 pipe=128 ssm=s mms=- cr=win:3 pause=- sd=0 | 10:inf ; 10:inf ; 3072:inf ; 10:inf",
    // D4 c16-send-starved-leak: credit consumed by a call cancelled before its transfer was handed to the session
    "txc tx mfs=512 cb=d sb=1 pipe=512 ssm=s mms=- cr=up:2 pause=- sd=0 | 10:inf ; 10:1 ; 10:inf",
    // the same leak, tolerated by the lenient reading (credit for every call plus 10): must stay quiet
    "txc tx mfs=512 cb=1 sb=1 pipe=64 ssm=s mms=- cr=up:19 pause=0..30 sd=1 | 768:1 ; 768:1 ; 768:1 ; 768:1 ; 768:1 ; 768:1 ; 768:1 ; 10:inf ; 3072:inf",
];

// ------------------------------------------------------------------------------------------
// txcm: the tx traces against the Coq model Link/SendCancel.v
// ------------------------------------------------------------------------------------------

/// One `txcm` case from a `txc tx` case and its trace: the calls (message = call number, link-level pieces, whether
/// the call completed), the credit grants, and - after `#` - the transfers the peer saw. The oracle searches the
/// model's drop points for one that reproduces the observed transfers.
pub fn abstract_tx(line: &str, trace: &str) -> Option<(String, String)> {
    if trace.starts_with("HARNESS-PANIC") || !trace.contains("S:") {
        return None;
    }
    let rest = line.strip_prefix("txc tx ")?;
    let (hd, _script) = rest.split_once('|')?;
    let hw: Vec<&str> = hd.split_whitespace().collect();
    let mms: Option<usize> = field(&hw, "mms").parse().ok();
    let crs = field(&hw, "cr");
    let pieces_of = |plen: usize| -> usize {
        match mms {
            Some(m) if m > 0 && plen > m => (plen + m - 1) / m,
            _ => 1,
        }
    };
    // calls
    let mut calls: Vec<(u32, usize, bool, Vec<u8>)> = Vec::new();
    for s in section(trace, "S:").split(';').map(|s| s.trim()).filter(|s| !s.is_empty()) {
        let p: Vec<&str> = s.split(',').collect();
        if p.len() != 5 {
            return None;
        }
        let (seq, size): (u32, usize) = (p[0].parse().ok()?, p[1].parse().ok()?);
        if p[3].starts_with("err") {
            return None; // the link failed: outside the model
        }
        let enc = encoded_message(seq, size);
        calls.push((seq, pieces_of(enc.len()), p[3].starts_with("ok"), enc));
    }
    // what the peer saw: deliveries (for the message identity) and frames
    struct D {
        tag: String,
        len: usize,
        hash: String,
        complete: bool,
    }
    let dels: Vec<D> = section(trace, "W:")
        .split(';')
        .map(|s| s.trim())
        .filter(|s| !s.is_empty())
        .filter_map(|s| {
            let p: Vec<&str> = s.split(',').collect();
            if p.len() < 6 {
                return None;
            }
            Some(D { tag: p[1].to_string(), len: p[3].parse().unwrap_or(0), hash: p[4].to_string(), complete: p[5] == "c" })
        })
        .collect();
    let msg_of_tag = |tag: &str| -> u32 {
        for d in dels.iter().filter(|d| d.tag == tag) {
            for (seq, _, _, enc) in &calls {
                if d.len <= enc.len() && format!("{:016x}", fnv(&enc[..d.len])) == d.hash && (!d.complete || d.len == enc.len()) {
                    return *seq;
                }
            }
        }
        999_999
    };
    let mut frames: Vec<String> = Vec::new();
    let mut cur: Option<(String, usize, u32)> = None;
    let mut completed: Vec<u32> = Vec::new();
    for f in section(trace, "F:").split(',').map(|s| s.trim()).filter(|s| !s.is_empty()) {
        let p: Vec<&str> = f.split('.').collect();
        if p.len() != 7 {
            return None;
        }
        let tag = p[2].trim_start_matches('t');
        let more = p[3] == "m1";
        if tag != "-" {
            cur = Some((tag.to_string(), 0, msg_of_tag(tag)));
        } else if let Some(c) = cur.as_mut() {
            c.1 += 1;
        } else {
            return None;
        }
        let c = cur.clone().unwrap();
        frames.push(format!("t{}.i{}.m{}.g{}", c.0, c.1, more as u8, c.2));
        if !more {
            completed.push(c.2);
        }
    }
    // grants
    let (first, per_delivery): (u64, bool) = if let Some(n) = crs.strip_prefix("up:") {
        (n.parse().ok()?, false)
    } else if let Some(r) = crs.strip_prefix("late:") {
        (r.split(':').next()?.parse().ok()?, false)
    } else if let Some(w) = crs.strip_prefix("win:") {
        (w.parse().ok()?, true)
    } else {
        return None;
    };
    // how the scripted peer counts an unfinished delivery in its credit window is its own business: not modelled
    if per_delivery && dels.iter().any(|d| !d.complete) {
        return None;
    }
    let mut evs: Vec<String> = vec![format!("G{}", first)];
    for (seq, pieces, ok, _) in &calls {
        evs.push(format!("C{}:{}:{}", seq, pieces, if *ok { "ok" } else { "x" }));
        if per_delivery && completed.contains(seq) {
            evs.push("G1".into());
        }
    }
    let observed = frames.join(",");
    Some((format!("txcm | {} # {}", evs.join(" ; "), observed), observed))
}

fn gen_txm(r: &mut Rng, thorough: bool) -> String {
    // sizes below the frame size: what the link hands to the session is what the peer sees, one frame per transfer
    let sizes = [10usize, 100, 300, 500];
    let n_ops = r.range(2, if thorough { 12 } else { 8 });
    let mut ops: Vec<String> = Vec::new();
    for _ in 0..n_ops {
        let size = *r.pick(&sizes);
        match r.below(20) {
            0..=6 => ops.push(format!("{}:inf", size)),
            7..=15 => ops.push(format!("{}:{}", size, r.range(1, 4))),
            16..=18 => ops.push(format!("{}:{}", size, r.range(5, 9))),
            _ => ops.push(format!("g{}", r.range(1, 30))),
        }
    }
    ops.push(format!("{}:inf", *r.pick(&sizes)));
    let attempts = max_attempts(&parse_ops(&ops.join(" ; ")));
    let cr = match r.below(8) {
        0..=3 => format!("up:{}", attempts + r.below(4) as u32),
        4 => format!("up:{}", 1 + r.below(attempts as u64) as u32),
        5 => format!("late:{}:{}", attempts + 2, r.range(1, 40)),
        _ => format!("win:{}", r.range(1, 3)),
    };
    let mms = match r.below(4) {
        0 => "100",
        1 => "200",
        _ => "-",
    };
    format!(
        "txc tx mfs=1024 cb={} sb={} pipe={} ssm={} mms={} cr={} pause={} sd={} | {}",
        pick_cap(r),
        pick_cap(r),
        *r.pick(&[64usize, 128, 256, 512]),
        if r.below(2) == 0 { "s" } else { "u" },
        mms,
        cr,
        gen_pause(r),
        *r.pick(&[0u64, 0, 1, 3, 10]),
        ops.join(" ; ")
    )
}

pub fn run_model(seed: u64, n: u64, thorough: bool, corpus: &[String], dir: &str) {
    crate::codec::quiet_panics();
    let mut out = Outputs::new(dir);
    let mut r = Rng::new(seed);
    let mut lines: Vec<String> = Vec::new();
    for l in corpus {
        if let Some(s) = l.strip_prefix("txcm-src ") {
            out.count("corpus_cases");
            lines.push(s.to_string());
        }
    }
    for l in KNOWN {
        if l.starts_with("txc tx") && !l.contains("3072") && !l.contains("768") {
            lines.push(l.to_string());
        }
    }
    // every drop point of one call between two complete ones, with and without the max-message-size split
    for mms in ["-", "100", "200"] {
        for sb in ["1", "2", "d"] {
            for k in 1..=(if thorough { 12 } else { 8 }) {
                for size in [10usize, 300] {
                    lines.push(format!(
                        "txc tx mfs=1024 cb=d sb={} pipe=512 ssm=u mms={} cr=up:3 pause=- sd=0 | 10:inf ; {}:{} ; 100:inf",
                        sb, mms, size, k
                    ));
                }
            }
        }
    }
    // the boundary of the max-message-size split: a message that encodes to exactly the limit (one transfer), one byte
    // less and one byte more, dropped at every point, followed by a complete one
    for mms in [100usize, 200] {
        if let Some(sz) = size_for_encoded_len(1, mms) {
            for sb in ["1", "2", "d"] {
                for k in 1..=(if thorough { 12 } else { 6 }) {
                    for size in [sz - 1, sz, sz + 1] {
                        lines.push(format!(
                            "txc tx mfs=1024 cb=d sb={} pipe=512 ssm=u mms={} cr=up:3 pause=- sd=0 | 10:inf ; {}:{} ; 100:inf",
                            sb, mms, size, k
                        ));
                    }
                }
            }
        }
    }
    out.add("enumerated_cases", lines.len() as u64);
    for _ in 0..n {
        lines.push(gen_txm(&mut r, thorough));
    }
    for line in lines {
        let l2 = line.clone();
        let t = match std::panic::catch_unwind(move || run_case(&l2)) {
            Ok(t) => t,
            Err(_) => "HARNESS-PANIC".to_string(),
        };
        match abstract_tx(&line, &t) {
            Some((case, observed)) => {
                let hw: Vec<&str> = line.split('|').next().unwrap_or("").split_whitespace().collect();
                out.count(&format!("mms={}", field(&hw, "mms")));
                out.count(&format!("cr={}", field(&hw, "cr").split(':').next().unwrap_or("?")));
                let cancelled = case.matches(":x").count();
                out.add("calls_not_completed", cancelled as u64);
                out.add("transfers_seen", observed.split(',').filter(|x| !x.is_empty()).count() as u64);
                if observed.contains(".m1.") {
                    out.count("with_multi_transfer_delivery");
                }
                if cancelled > 0 && observed.matches(".m0.").count() >= 2 {
                    out.nontrivial(&case);
                }
                out.case(&case, &observed);
            }
            None => out.count("outside_model"),
        }
    }
    out.finish(dir);
}
