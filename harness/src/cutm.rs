//! C14 — the `cut` cases seen through the alphabet of the Coq model `Conn/Failure.v` (tag `cutm`).
//!
//! Every `cut` case (see `cut.rs`) is run on the implementation, then its concrete trace is abstracted:
//!
//! * (i) the SCENARIO = the case line written to `cases.txt`: one event list
//!   `cutm <ev> ; <ev> ; ...` made of
//!   - application calls `<step>=<kind>` (`open=open`, `begin=begin`, `attach_s=attach_s`, `send#1=send`,
//!     `send#2=sendb`, `out#2=out`, `recv#1=recv`, `acc#1=acc`, `detach_s=detach_s`, `close_r=close_r`, `end=end`,
//!     `close=close`),
//!   - frames of the peer `p:<f>`: `O`, `B`, `As`, `Ar`, `Fs` (credit), `S0` / `S1` (the delivery of the blocking
//!     send / of the batchable send is settled), `T` (a complete delivery), `Ds<c><e>` / `Dr<c><e>` (detach of the
//!     client's sender / receiver link, closed flag, with error), `E<e>`, `C<e>` - the injected frame of the case is
//!     one of them, exactly like the frames with which the peer answers,
//!   - the transport breaking `x:eof` / `x:reset`, and `x:drop` (the silent peer drops the pipe 120 s after its
//!     injection).
//!   The list is built from the trace alone: the steps that were issued before the failure (unmarked), after it
//!   (`*`) and after the pipe drop (`**`) form three stages; within a stage the calls are in programme order (open,
//!   begin, attach_s, attach_r, send#1, send#2, send#3, out#2, recv#1, acc#1, recv#2, acc#2, detach_s, close_r, end,
//!   close: the calls of different handles only interact through that order) and every frame the peer wrote in the
//!   stage (the trace's `pw` for the first stage, the rest of the peer's frame log for the second) comes in the
//!   peer's order, right after the call it answers when that call belongs to the stage. Results are not looked at.
//! * (ii) the RESULT of every step, written to `impl.txt`: `<step>=ok | err:<link|sess|conn|none>[+e] | PENDING`,
//!   `+e`: the error carries the peer's error condition, `~`: the step completed only when the silent peer dropped
//!   the pipe (or later); and `eng=<engine tasks alive at the end>`.
//!
//! Two rules tie the concrete delivery to the model's atomic events (both use the input side of the trace only):
//! after a `reset` only the frames that the client has actually read count (what the peer wrote last is lost with
//! the stream; `cut::run_case_full` reports the number); and the peer's answer to `attach_r` that arrives in the
//! same burst as a failure stopping the session, while `attach_r` has not returned, is moved behind the failure
//! (Receiver::attach still has to write its first flow when the application task runs: for it the attach came too
//! late).
//!
//! The oracle (`extraction/driver.ml`, tag `cutm`) runs the model on the event list (each event followed by the
//! propagation step) and prints the same line.
//!
//! Outside the model's alphabet (not compared, counted in stats.json): injections at a position where the
//! performative is a protocol error (`valid=0`: C15's ground), pipes of 256 bytes and less (known finding
//! `c14-hang-engine-stuck`: the connection engine blocks in a write).
use crate::cut::{self, Kind};
use crate::out::Outputs;
use crate::rng::Rng;
use std::sync::{Arc, Mutex};

const PROGRAMME: [&str; 16] =
    ["open", "begin", "attach_s", "attach_r", "send#1", "send#2", "send#3", "out#2", "recv#1", "acc#1", "recv#2", "acc#2", "detach_s", "close_r", "end", "close"];

fn call_kind(name: &str) -> &'static str {
    match name {
        "open" => "open",
        "begin" => "begin",
        "close" => "close",
        "attach_s" => "attach_s",
        "attach_r" => "attach_r",
        "end" => "end",
        "send#2" => "sendb",
        "detach_s" => "detach_s",
        "close_r" => "close_r",
        n if n.starts_with("send#") => "send",
        n if n.starts_with("out#") => "out",
        n if n.starts_with("recv#") => "recv",
        n if n.starts_with("acc#") => "acc",
        _ => "?",
    }
}

/// abstract result of one call
pub fn abstract_result(r: &str) -> String {
    let late = r.ends_with('~');
    let r = r.trim_end_matches('~');
    if r == "PENDING" {
        return "PENDING".to_string();
    }
    let a = if r.starts_with("ok") {
        "ok".to_string()
    } else {
        let e = if r.contains("InternalError") { "+e" } else { "" };
        let conn = r.contains("ConnectionStopped(") || r.contains("TransportError(") || r.contains("Io(") || r.contains("OpenError::RemoteClosed") || r.contains("connection::Error::RemoteClosed");
        let sess = r.contains("SessionStopped(") || r.contains("RemoteEnded");
        let link = r.contains("RemoteDetached") || r.contains("RemoteClosed") || r.contains("ClosedByRemote") || r.contains("DetachedByRemote");
        let sc = if conn {
            "conn"
        } else if sess {
            "sess"
        } else if link {
            "link"
        } else {
            "none"
        };
        format!("err:{}{}", sc, e)
    };
    format!("{}{}", a, if late { "~" } else { "" })
}

struct CallTok {
    name: String,
    stage: u8,
    res: String,
}

/// split a task section at top-level commas
fn split_top(sec: &str) -> Vec<String> {
    let mut parts = Vec::new();
    let mut depth = 0;
    let mut cur = String::new();
    for c in sec.chars() {
        match c {
            '(' => {
                depth += 1;
                cur.push(c)
            }
            ')' => {
                depth -= 1;
                cur.push(c)
            }
            ',' if depth == 0 => parts.push(std::mem::take(&mut cur)),
            _ => cur.push(c),
        }
    }
    if !cur.is_empty() {
        parts.push(cur);
    }
    parts
}

/// why a case is outside the model's alphabet
pub fn excluded(case: &cut::Case, trace: &str) -> Option<&'static str> {
    if trace.starts_with("HARNESS-PANIC") || trace == "BAD-CASE-LINE" {
        return Some("harness_panic");
    }
    if case.pipe <= 256 {
        return Some("small_pipe");
    }
    if case.shut > 0 {
        // a stream whose shutdown takes time (and the extra begin issued meanwhile) is outside the model's alphabet
        return Some("slow_shutdown");
    }
    if trace.contains(" valid=0 ") {
        return Some("protocol_error_position");
    }
    None
}

/// (scenario, abstract results) of one case
pub fn abstract_case(case: &cut::Case, trace: &str, full_pw: &[String], delivered: usize) -> (String, String) {
    let secs: Vec<&str> = trace.split(" | ").collect();
    let get = |p: &str| secs.iter().find_map(|s| s.strip_prefix(p)).unwrap_or("");
    let tail = secs.last().copied().unwrap_or("");
    let tkv = |k: &str| tail.split_whitespace().find_map(|x| x.strip_prefix(k).and_then(|x| x.strip_prefix('='))).unwrap_or("");
    let failed = tkv("tfail") != "-";
    let n_pre = if failed { get("pw=").split(',').filter(|s| !s.is_empty()).count() } else { full_pw.len() };
    // a reset loses what the peer wrote last: only the frames that the client has read count
    let n_pre = if matches!(case.kind, Kind::Cut { how: cut::How::Reset, .. }) { n_pre.min(delivered) } else { n_pre };
    // ---- the calls
    let mut calls: Vec<CallTok> = Vec::new();
    for t in ["conn", "sess", "tx", "rx"] {
        for p in split_top(get(&format!("{}:", t))) {
            let Some((n, r)) = p.split_once('=') else { continue };
            if n == "closed" || n == "ended" {
                continue;
            }
            let stage = if n.ends_with("**") {
                2
            } else if n.ends_with('*') {
                1
            } else {
                0
            };
            calls.push(CallTok { name: n.trim_end_matches('*').to_string(), stage, res: r.to_string() });
        }
    }
    let pos = |n: &str| PROGRAMME.iter().position(|x| *x == n).unwrap_or(PROGRAMME.len());
    calls.sort_by_key(|c| pos(&c.name));

    // ---- the peer's frames as model events, with the call each one answers
    struct Fr {
        ev: String,
        anchor: Option<&'static str>,
        idx: usize,
    }
    let mut frames: Vec<Fr> = Vec::new();
    let (mut s_att, mut r_att) = (0u32, 0u32);
    for (idx, t) in full_pw.iter().enumerate() {
        let inj = t.starts_with('!');
        let e = t.ends_with('e') && inj;
        let closed = match case.kind {
            Kind::Inject { closed, .. } => closed,
            _ => true,
        };
        let b = |x: bool| if x { '1' } else { '0' };
        let (ev, anchor): (Option<String>, Option<&'static str>) = match t.trim_end_matches('e') {
            _ if t == "H" => (None, None),
            "O" => (Some("O".into()), Some("open")),
            "B" => (Some("B".into()), Some("begin")),
            "As" => {
                s_att += 1;
                (Some("As".into()), Some(if s_att == 1 { "attach_s" } else { "detach_s" }))
            }
            "Fs" => (Some("Fs".into()), Some(if s_att <= 1 { "attach_s" } else { "detach_s" })),
            "Ar" => {
                r_att += 1;
                (Some("Ar".into()), Some(if r_att == 1 { "attach_r" } else { "close_r" }))
            }
            "P0" => (Some("S0".into()), Some("send#1")),
            "P1" => (Some("S1".into()), Some("send#2")),
            "P2" => (Some("S0".into()), Some("send#3")),
            "t0" | "t1" => (Some("T".into()), None),
            "t1m" => (None, None),
            // a non-terminal `received` disposition: changes no call's result
            "R1" => (None, None),
            // the peer echoes the closed flag of the client's detach: detach() is not closing unless it comes after a re-attach
            "Ds" => (Some(format!("Ds{}0", b(s_att > 1))), Some("detach_s")),
            "Dr" => (Some("Dr10".into()), Some("close_r")),
            "E" => (Some("E0".into()), Some("end")),
            "C" => (Some("C0".into()), Some("close")),
            "!C" => (Some(format!("C{}", b(e))), None),
            "!E" => (Some(format!("E{}", b(e))), None),
            "!Ds" => (Some(format!("Ds{}{}", b(closed), b(e))), None),
            "!Dr" => (Some(format!("Dr{}{}", b(closed), b(e))), None),
            _ => (Some(format!("?{}", t)), None),
        };
        if let Some(ev) = ev {
            frames.push(Fr { ev: format!("p:{}", ev), anchor, idx });
        }
    }

    // ---- the stages
    let mut evs: Vec<String> = Vec::new();
    let mut order: Vec<usize> = Vec::new(); // indices into `calls`, in the order of the event list
    let mut emitted = vec![false; calls.len()];
    let mut stage_pass = |stage: u8, frs: &[&Fr], evs: &mut Vec<String>, order: &mut Vec<usize>, emitted: &mut Vec<bool>| {
        for f in frs {
            if let Some(a) = f.anchor {
                let ap = pos(a);
                // the anchor call of this stage and everything before it in programme order
                if calls.iter().enumerate().any(|(i, c)| c.stage == stage && !emitted[i] && c.name == a) {
                    for (i, c) in calls.iter().enumerate() {
                        if c.stage == stage && !emitted[i] && pos(&c.name) <= ap {
                            emitted[i] = true;
                            order.push(i);
                            evs.push(format!("{}={}", c.name, call_kind(&c.name)));
                        }
                    }
                }
            }
            evs.push(f.ev.clone());
        }
        for (i, c) in calls.iter().enumerate() {
            if c.stage == stage && !emitted[i] {
                emitted[i] = true;
                order.push(i);
                evs.push(format!("{}={}", c.name, call_kind(&c.name)));
            }
        }
    };
    let silent = matches!(case.kind, Kind::Inject { silent: true, .. });
    // the injected frame is the last one the peer wrote before the failure instant: it is the failure event
    let injected = failed && matches!(case.kind, Kind::Inject { .. }) && n_pre > 0;
    let n_before = if injected { n_pre - 1 } else { n_pre };
    let mut pre: Vec<&Fr> = frames.iter().filter(|f| f.idx < n_before).collect();
    let post: Vec<&Fr> = frames.iter().filter(|f| f.idx >= n_pre).collect();
    // The model's events are atomic: a frame is handled by the engines AND by the application task before the next
    // event. The harness delivers the peer's last frame and a failure that follows it at once in one burst, which the
    // engines work off before any application task runs. One operation can tell the difference: Receiver::attach
    // writes its first flow after having read the peer's attach. When that attach is the last frame before a failure
    // that stops the session (cut, close, end) and attach_r has not returned at the failure, it counts as not delivered: it is moved behind the failure event.
    let stops_session = match case.kind {
        Kind::Cut { .. } => true,
        Kind::Inject { what, .. } => matches!(what, cut::Inj::Close | cut::Inj::End),
        Kind::Ref => false,
    };
    let mut late_attach: Option<&Fr> = None;
    if failed && stops_session {
        if let Some(last) = pre.last() {
            // ... and attach_r had not returned when the failure happened
            let in_attach = get("at:").split(',').any(|x| x == "sess=attach_r");
            if last.ev == "p:Ar" && last.anchor == Some("attach_r") && in_attach {
                late_attach = pre.pop();
            }
        }
    }
    stage_pass(0, &pre, &mut evs, &mut order, &mut emitted);
    if failed {
        match case.kind {
            Kind::Cut { how, .. } => {
                evs.push(if how == cut::How::Reset { "x:reset".into() } else { "x:eof".into() });
                if let Some(f) = late_attach {
                    evs.push(f.ev.clone());
                }
                stage_pass(1, &[], &mut evs, &mut order, &mut emitted);
            }
            Kind::Inject { .. } => {
                for f in frames.iter().filter(|f| f.idx >= n_before && f.idx < n_pre) {
                    evs.push(f.ev.clone());
                }
                if let Some(f) = late_attach {
                    evs.push(f.ev.clone());
                }
                stage_pass(1, &post, &mut evs, &mut order, &mut emitted);
            }
            Kind::Ref => {}
        }
        let _ = silent;
        if get("cw=").contains(';') {
            evs.push("x:drop".into());
        }
        stage_pass(2, &[], &mut evs, &mut order, &mut emitted);
    }
    let res: Vec<String> = order.iter().map(|i| format!("{}={}", calls[*i].name, abstract_result(&calls[*i].res))).collect();
    let eng = tkv("eng").split('/').next().unwrap_or("?").to_string();
    (format!("cutm {}", evs.join(" ; ")), format!("{} eng={}", res.join(" "), eng))
}

pub fn run(seed: u64, n: u64, thorough: bool, corpus: &[String], dir: &str) {
    crate::codec::quiet_panics();
    let mut out = Outputs::new(dir);
    let mut r = Rng::new(seed);
    let mut lines: Vec<String> = Vec::new();
    for l in corpus {
        if l.starts_with("cut ") {
            out.count("corpus_cases");
            lines.push(l.clone());
        }
    }
    lines.extend(cut::enumerate(thorough));
    for _ in 0..n {
        lines.push(cut::gen_case(&mut r, thorough));
    }
    let workers = 6usize;
    let lines = Arc::new(lines);
    let next = Arc::new(std::sync::atomic::AtomicUsize::new(0));
    let results: Arc<Mutex<Vec<Option<(String, Vec<String>, usize)>>>> = Arc::new(Mutex::new(vec![None; lines.len()]));
    let mut hs = Vec::new();
    for _ in 0..workers {
        let (lines, next, results) = (lines.clone(), next.clone(), results.clone());
        hs.push(std::thread::spawn(move || loop {
            let i = next.fetch_add(1, std::sync::atomic::Ordering::SeqCst);
            if i >= lines.len() {
                break;
            }
            let t = cut::run_case_full(&lines[i]);
            results.lock().unwrap()[i] = Some(t);
        }));
    }
    for h in hs {
        let _ = h.join();
    }
    let results = results.lock().unwrap();
    let mut seen = std::collections::HashSet::new();
    for (i, l) in lines.iter().enumerate() {
        let (t, pw, delivered) = results[i].clone().unwrap_or_else(|| ("HARNESS-PANIC panics=1@worker".to_string(), Vec::new(), 0));
        out.count("concrete_cases");
        let Some(case) = cut::parse_case(l) else {
            out.count("bad_case_line");
            continue;
        };
        if let Some(why) = excluded(&case, &t) {
            out.count(&format!("outside_alphabet_{}", why));
            continue;
        }
        out.count("inside_alphabet");
        let (scen, res) = abstract_case(&case, &t, &pw, delivered);
        match case.kind {
            Kind::Ref => out.count("kind_ref"),
            Kind::Cut { .. } => out.count("kind_cut"),
            Kind::Inject { what, silent, .. } => out.count(&format!("kind_inject_{:?}_{}", what, if silent { "silent" } else { "answer" }).to_lowercase()),
        }
        // distinct concrete cases may share a scenario: they must then share the abstract results as well
        let key = format!("{} => {}", scen, res);
        if seen.insert(key) {
            out.count("distinct_abstract_cases");
        }
        if res.contains("err:") || res.contains("PENDING") {
            out.nontrivial(&scen);
        }
        for x in res.split_whitespace() {
            if let Some((_, v)) = x.split_once('=') {
                if x.starts_with("eng=") {
                    continue;
                }
                out.count(&format!("result_{}", v.trim_end_matches('~').replace(':', "_").replace('+', "_")));
            }
        }
        if std::env::var_os("CUTM_SRC").is_some() {
            eprintln!("SRC {} <= {}", scen, l);
        }
        out.case(&scen, &res);
    }
    out.finish(dir);
}

/// one case: the concrete trace, the scenario and the abstract results
pub fn show(line: &str) -> String {
    let (t, pw, delivered) = cut::run_case_full(line);
    match cut::parse_case(line) {
        Some(c) => {
            let (s, r) = abstract_case(&c, &t, &pw, delivered);
            format!("{}\nfull pw: {} (read by the client: {})\n{}\n{}", t, pw.join(","), delivered, s, r)
        }
        None => t,
    }
}
