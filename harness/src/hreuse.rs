//! `hreuse` sub-harness (C11, direct oracle): several sending links on one client session against a scripted peer -
//! a handle belongs to ONE link at a time, and what a link does at the end of its life (answering a detach, being
//! dropped after it was detached, being closed) never touches a handle that has meanwhile gone to another link.
//!
//! Script ops (links a, b, c): `att x` | `pd x` (peer detaches x, not closing) | `pdc x` (closing) | `ond x` (Sender::on_detach: the
//! application waits for the peer's detach) | `det x`
//! (Sender::detach, the DetachedSender is kept) | `cls x` (Sender::close) | `drop x` | `dropd x` (drop the kept
//! DetachedSender) | `send x`.
//! Case line: `hreuse | op ; op ; ...`; trace: per op what the client wrote and how the call ended.
//! Oracle (on the frames the client writes, op by op):
//!  * c11-foreign-handle-detached: a detach names a handle whose current owner is not the link the op is about;
//!  * c11-own-handle-detached-twice: the op's own link writes a second detach for the handle it has just given up;
//!  * c11-handle-shared: an attach names a handle that another link still owns;
//!  * c02-foreign-outcome / c02-outcome-missing: the peer numbers its link ends the other way round than the client and rejects
//!    the deliveries of link b while accepting the others: every send resolves with the outcome of its own delivery;
//!  * c11-link-broken-by-other: `send x` on a link that is attached, has credit and was never detached fails.
use crate::c12::{peer_begin, peer_open};
use crate::eng::*;
use crate::out::*;
use crate::rng::Rng;
use fe2o3_amqp::link::sender::DetachedSender;
use fe2o3_amqp::{Connection, Sender, Session};
use fe2o3_amqp_types::definitions::Role;
use fe2o3_amqp_types::messaging::{Accepted, DeliveryState};
use fe2o3_amqp_types::performatives::{Attach, Detach, Disposition, Flow, Performative};
use std::collections::HashMap;
use std::time::Duration;

struct PeerSt {
    peer: Peer,
    /// client handle -> link name, as announced by the client's attach
    names: HashMap<u32, String>,
    /// link name -> handle the peer gave its end
    my_handle: HashMap<String, u32>,
    next_peer_handle: u32,
    /// frames the peer initiated and whose answer it must not answer again
    expecting_detach: Vec<u32>,
    log: Vec<String>,
}

impl PeerSt {
    /// read what the client wrote, answer as a well-behaved peer, return the tokens
    async fn pump(&mut self) -> Vec<String> {
        let mut toks = Vec::new();
        for w in self.peer.drain().await {
            let mut out = Vec::new();
            match &w {
                Wire::Header(_) => out.extend(AMQP_HEADER.to_vec()),
                Wire::Frame { channel: _, perf, .. } => match perf {
                    Performative::Open(_) => out.extend(frame_bytes(0, &peer_open(None, 10, 65536), &[])),
                    Performative::Begin(_) => out.extend(frame_bytes(0, &peer_begin(Some(0)), &[])),
                    Performative::Attach(a) => {
                        toks.push(format!("A({}:h{})", a.name, a.handle.0));
                        self.names.insert(a.handle.0, a.name.clone());
                        // the peer numbers its link ends the other way round than the client does (1,0,3,2,..): an outcome routed by
                        // the wrong side's handle reaches another link
                        let k = self.next_peer_handle;
                        self.next_peer_handle += 1;
                        let ph = k ^ 1;
                        self.my_handle.insert(a.name.clone(), ph);
                        let reply = Attach {
                            name: a.name.clone(),
                            handle: ph.into(),
                            role: Role::Receiver,
                            snd_settle_mode: a.snd_settle_mode.clone(),
                            rcv_settle_mode: a.rcv_settle_mode.clone(),
                            source: a.source.clone(),
                            target: a.target.clone(),
                            unsettled: None,
                            incomplete_unsettled: false,
                            initial_delivery_count: None,
                            max_message_size: None,
                            offered_capabilities: None,
                            desired_capabilities: None,
                            properties: None,
                        };
                        out.extend(frame_bytes(0, &Performative::Attach(reply), &[]));
                        let flow = Flow {
                            next_incoming_id: Some(0),
                            incoming_window: 1000,
                            next_outgoing_id: 0,
                            outgoing_window: 1000,
                            handle: Some(ph.into()),
                            delivery_count: Some(0),
                            link_credit: Some(100),
                            available: None,
                            drain: false,
                            echo: false,
                            properties: None,
                        };
                        out.extend(frame_bytes(0, &Performative::Flow(flow), &[]));
                    }
                    Performative::Detach(d) => {
                        toks.push(format!("D(h{}{})", d.handle.0, if d.closed { ":closed" } else { "" }));
                        let name = self.names.get(&d.handle.0).cloned();
                        if let Some(p) = self.expecting_detach.iter().position(|h| *h == d.handle.0) {
                            self.expecting_detach.remove(p);
                        } else if let Some(n) = &name {
                            if let Some(ph) = self.my_handle.get(n) {
                                let reply = Detach { handle: (*ph).into(), closed: d.closed, error: None };
                                out.extend(frame_bytes(0, &Performative::Detach(reply), &[]));
                            }
                        }
                    }
                    Performative::Transfer(t) => {
                        toks.push(format!("T(h{})", t.handle.0));
                        if let (Some(id), false) = (t.delivery_id, t.settled.unwrap_or(false)) {
                            // deliveries on link "b" are rejected, all others accepted: every send must get the outcome of its OWN delivery
                            let on_b = self.names.get(&t.handle.0).map(|n| n == "b").unwrap_or(false);
                            let state = if on_b {
                                DeliveryState::Rejected(fe2o3_amqp_types::messaging::Rejected { error: None })
                            } else {
                                DeliveryState::Accepted(Accepted {})
                            };
                            let disp = Disposition { role: Role::Receiver, first: id, last: None, settled: true, state: Some(state), batchable: false };
                            out.extend(frame_bytes(0, &Performative::Disposition(disp), &[]));
                        }
                    }
                    Performative::End(_) => toks.push("E".into()),
                    Performative::Close(_) => toks.push("C".into()),
                    _ => {}
                },
                _ => {}
            }
            if !out.is_empty() {
                self.peer.write(&out).await;
            }
        }
        self.log.extend(toks.clone());
        toks
    }
}

enum L {
    Live(Sender),
    Detached(DetachedSender),
    Gone,
}

pub fn run_script(script: &str) -> String {
    let ops: Vec<Vec<String>> = script.split(';').map(|o| o.split_whitespace().map(|x| x.to_string()).collect::<Vec<_>>()).filter(|o: &Vec<String>| !o.is_empty()).collect();
    paused_rt().block_on(async move {
        let (a, b) = tokio::io::duplex(1 << 20);
        let mut st = PeerSt { peer: Peer::new(b), names: HashMap::new(), my_handle: HashMap::new(), next_peer_handle: 0, expecting_detach: Vec::new(), log: Vec::new() };
        // open + begin
        let opening = tokio::spawn(async move {
            let mut conn = Connection::builder().container_id("c").open_with_stream(a).await.map_err(|e| format!("{:?}", e))?;
            let sess = Session::begin(&mut conn).await.map_err(|e| format!("{:?}", e))?;
            Ok::<_, String>((conn, sess))
        });
        for _ in 0..40 {
            barrier().await;
            st.pump().await;
            if opening.is_finished() {
                break;
            }
        }
        let (_conn, mut sess) = match opening.await {
            Ok(Ok(x)) => x,
            _ => return "PRELUDE-FAILED".to_string(),
        };
        let mut links: HashMap<String, L> = HashMap::new();
        let mut steps: Vec<String> = Vec::new();
        for op in &ops {
            let verb = op[0].as_str();
            let x = op.get(1).cloned().unwrap_or_default();
            let mut res = String::new();
            let mut wrote: Vec<String> = Vec::new();
            macro_rules! drive {
                ($fut:expr) => {{
                    let fut = $fut;
                    tokio::pin!(fut);
                    let mut done = None;
                    for _ in 0..60 {
                        tokio::select! {
                            biased;
                            r = &mut fut => { done = Some(r); break; }
                            _ = barrier() => {}
                        }
                        wrote.extend(st.pump().await);
                    }
                    done
                }};
            }
            match verb {
                "att" => {
                    let r = drive!(Sender::attach(&mut sess, x.clone(), "q"));
                    match r {
                        Some(Ok(s)) => {
                            links.insert(x.clone(), L::Live(s));
                            res = "ok".into();
                        }
                        Some(Err(e)) => res = format!("err({})", &format!("{:?}", e)[..20.min(format!("{:?}", e).len())]),
                        None => res = "PENDING".into(),
                    }
                }
                "pd" | "pdc" => {
                    if let Some(ph) = st.my_handle.get(&x).cloned() {
                        // the client's answer is found by the client handle of that link
                        if let Some((ch, _)) = st.names.iter().find(|(_, n)| **n == x) {
                            st.expecting_detach.push(*ch);
                        }
                        let d = Detach { handle: ph.into(), closed: verb == "pdc", error: None };
                        st.peer.write(&frame_bytes(0, &Performative::Detach(d), &[])).await;
                        res = "sent".into();
                    } else {
                        res = "skip".into();
                    }
                }
                "ond" => match links.get_mut(&x) {
                    // the application waits for (and so takes note of) the peer's detach before it answers
                    Some(L::Live(s)) => {
                        let r = drive!(s.on_detach());
                        res = match r {
                            Some(e) => format!("seen({})", &format!("{:?}", e)[..16.min(format!("{:?}", e).len())]),
                            None => "PENDING".into(),
                        };
                    }
                    _ => res = "skip".into(),
                },
                "det" => match links.remove(&x) {
                    Some(L::Live(s)) => {
                        let r = drive!(s.detach());
                        match r {
                            Some(Ok(d)) => {
                                links.insert(x.clone(), L::Detached(d));
                                res = "ok".into();
                            }
                            Some(Err((d, e))) => {
                                links.insert(x.clone(), L::Detached(d));
                                res = format!("err({})", &format!("{:?}", e)[..16.min(format!("{:?}", e).len())]);
                            }
                            None => res = "PENDING".into(),
                        }
                    }
                    other => {
                        if let Some(o) = other {
                            links.insert(x.clone(), o);
                        }
                        res = "skip".into();
                    }
                },
                "cls" => match links.remove(&x) {
                    Some(L::Live(s)) => {
                        let r = drive!(s.close());
                        links.insert(x.clone(), L::Gone);
                        res = match r {
                            Some(Ok(())) => "ok".into(),
                            Some(Err(e)) => format!("err({})", &format!("{:?}", e)[..16.min(format!("{:?}", e).len())]),
                            None => "PENDING".into(),
                        };
                    }
                    other => {
                        if let Some(o) = other {
                            links.insert(x.clone(), o);
                        }
                        res = "skip".into();
                    }
                },
                "drop" | "dropd" => {
                    let want_detached = verb == "dropd";
                    match links.remove(&x) {
                        Some(L::Live(s)) if !want_detached => {
                            drop(s);
                            links.insert(x.clone(), L::Gone);
                            res = "ok".into();
                        }
                        Some(L::Detached(d)) if want_detached => {
                            drop(d);
                            links.insert(x.clone(), L::Gone);
                            res = "ok".into();
                        }
                        other => {
                            if let Some(o) = other {
                                links.insert(x.clone(), o);
                            }
                            res = "skip".into();
                        }
                    }
                }
                "send" => match links.get_mut(&x) {
                    Some(L::Live(s)) => {
                        let r = drive!(s.send("m"));
                        res = match r {
                            Some(Ok(o)) => format!("ok:{}", &format!("{:?}", o)[..8.min(format!("{:?}", o).len())]),
                            Some(Err(e)) => format!("err({})", &format!("{:?}", e)[..24.min(format!("{:?}", e).len())]),
                            None => "PENDING".into(),
                        };
                    }
                    _ => res = "skip".into(),
                },
                _ => res = "BADOP".into(),
            }
            for _ in 0..3 {
                barrier().await;
                wrote.extend(st.pump().await);
            }
            steps.push(format!("{}={} [{}]", op.join(" "), res, wrote.join(",")));
        }
        tokio::time::sleep(Duration::from_millis(50)).await;
        let tail = st.pump().await;
        format!("{} | tail=[{}]", steps.join(" ; "), tail.join(","))
    })
}

pub fn oracle(trace: &str) -> Vec<(String, String)> {
    let mut v = Vec::new();
    if trace.starts_with("PRELUDE") {
        return v;
    }
    let body = trace.split(" | tail=").next().unwrap_or("");
    let mut owner: HashMap<String, String> = HashMap::new(); // handle -> link
    let mut detached_ever: Vec<String> = Vec::new();
    for step in body.split(" ; ") {
        let (head, wrote) = match step.split_once(" [") {
            Some((h, w)) => (h, w.trim_end_matches(']')),
            None => (step, ""),
        };
        let opw: Vec<&str> = head.split(|c| c == ' ' || c == '=').collect();
        let verb = opw.first().copied().unwrap_or("");
        let x = opw.get(1).copied().unwrap_or("");
        let res = head.rsplit('=').next().unwrap_or("");
        if matches!(verb, "pd" | "pdc" | "ond" | "det" | "cls" | "drop" | "dropd") && !detached_ever.iter().any(|l| l == x) {
            detached_ever.push(x.to_string());
        }
        let mut released_here: Vec<String> = Vec::new();
        for t in wrote.split(',').filter(|t| !t.is_empty()) {
            if let Some(inner) = t.strip_prefix("A(").and_then(|r| r.strip_suffix(')')) {
                if let Some((name, h)) = inner.rsplit_once(":h") {
                    if let Some(o) = owner.get(h) {
                        if o != name {
                            v.push(("c11-handle-shared".to_string(), format!("link {} is attached under handle {} while link {} still holds it (step `{}`)", name, h, o, head)));
                        }
                    }
                    owner.insert(h.to_string(), name.to_string());
                }
            } else if let Some(inner) = t.strip_prefix("D(h").and_then(|r| r.strip_suffix(')')) {
                let h = inner.split(':').next().unwrap_or("");
                match owner.get(h) {
                    Some(o) if o == x => {
                        owner.remove(h);
                        released_here.push(h.to_string());
                    }
                    Some(o) => v.push((
                        "c11-foreign-handle-detached".to_string(),
                        format!("step `{}` (about link {}) wrote a detach for handle {} which belongs to link {}", head, x, h, o),
                    )),
                    None if released_here.iter().any(|r| r == h) => v.push((
                        "c11-own-handle-detached-twice".to_string(),
                        format!("step `{}` wrote a second detach for handle {} after the link had given it up in the same step", head, h),
                    )),
                    None => v.push((
                        "c11-foreign-handle-detached".to_string(),
                        format!("step `{}` wrote a detach for handle {} which no attached link holds", head, h),
                    )),
                }
            }
        }
        if verb == "send" && res.starts_with("ok:") {
            // C02: the outcome a send resolves with is the one the peer gave for that very delivery
            let want = if x == "b" { "Rejected" } else { "Accepted" };
            if !res.starts_with(&format!("ok:{}", want)) {
                v.push(("c02-foreign-outcome".to_string(), format!("`send {}` resolved with {} - the peer answered the deliveries of link {} with {}", x, res, x, want)));
            }
        }
        if verb == "send" && res == "PENDING" && !detached_ever.iter().any(|l| l == x) {
            v.push(("c02-outcome-missing".to_string(), format!("`send {}` never resolved although the peer settled its delivery with an outcome", x)));
        }
        if verb == "send" && !res.starts_with("ok") && res != "skip" && !detached_ever.iter().any(|l| l == x) {
            v.push(("c11-link-broken-by-other".to_string(), format!("`send {}` ended with {} although link {} was attached, had credit and was never detached", x, res, x)));
        }
    }
    v
}

pub fn gen_script(r: &mut Rng) -> String {
    // the generator keeps to the protocol on the peer's side (a link is detached by the peer at most once, and only while it
    // is attached) and to what the API allows on the client's: 0 = not attached, 1 = live, 2 = detached and kept, 3 = gone
    let mut st: HashMap<&str, u8> = HashMap::new();
    let mut peer_detached: Vec<&str> = Vec::new();
    let mut ops: Vec<String> = vec!["att a".into()];
    st.insert("a", 1);
    let n = r.range(4, 12);
    for _ in 0..n {
        let x = *r.pick(&["a", "b", "c"]);
        let cur = *st.get(x).unwrap_or(&0);
        let op = match r.below(12) {
            0..=2 if cur == 0 || cur == 3 => {
                st.insert(x, 1);
                peer_detached.retain(|l| *l != x);
                format!("att {}", x)
            }
            3 if cur == 1 && !peer_detached.contains(&x) => {
                peer_detached.push(x);
                if r.chance(1, 2) { format!("pd {} ; ond {}", x, x) } else { format!("pd {}", x) }
            }
            4 if cur == 1 && !peer_detached.contains(&x) => {
                peer_detached.push(x);
                if r.chance(1, 2) { format!("pdc {} ; ond {}", x, x) } else { format!("pdc {}", x) }
            }
            5..=6 if cur == 1 => {
                st.insert(x, 2);
                format!("det {}", x)
            }
            7 if cur == 1 => {
                st.insert(x, 3);
                format!("cls {}", x)
            }
            8 if cur == 2 => {
                st.insert(x, 3);
                format!("dropd {}", x)
            }
            9 if cur == 1 => {
                st.insert(x, 3);
                format!("drop {}", x)
            }
            _ if cur == 1 => format!("send {}", x),
            _ => continue,
        };
        ops.push(op);
    }
    for x in ["a", "b", "c"] {
        if st.get(x) == Some(&1) {
            ops.push(format!("send {}", x));
        }
    }
    ops.join(" ; ")
}

pub fn run(seed: u64, n: u64, _thorough: bool, _corpus: &[String], dir: &str) {
    crate::codec::quiet_panics();
    let mut out = Outputs::new(dir);
    let mut r = Rng::new(seed ^ 0x6872);
    let mut scripts: Vec<String> = vec![
        "att a ; pd a ; ond a ; det a ; att b ; dropd a ; send b ; att c ; send b ; send c".into(),
        "att a ; att b ; pd a ; ond a ; det a ; att c ; dropd a ; send b ; send c".into(),
        "att a ; pdc a ; ond a ; cls a ; att b ; send b ; att c ; send c".into(),
        "att a ; pd a ; ond a ; det a ; att b ; att c ; dropd a ; send b ; send c ; cls b ; att a ; send a".into(),
        "att a ; pd a ; det a ; att b ; dropd a ; send b ; att c ; send b ; send c".into(),
        "att a ; det a ; att b ; dropd a ; send b ; att c ; send c".into(),
        "att a ; pdc a ; cls a ; att b ; send b".into(),
        "att a ; att b ; pd a ; det a ; dropd a ; send b ; att c ; send c ; send b".into(),
        "att a ; pd a ; det a ; att b ; att c ; dropd a ; send b ; send c".into(),
        "att a ; att b ; det a ; dropd a ; att c ; send b ; send c ; cls b ; att a ; send a ; send c".into(),
        "att a ; att b ; drop a ; att c ; send b ; send c".into(),
        "att a ; pd a ; det a ; att b ; dropd a ; att c ; pd b ; det b ; att a ; dropd b ; send c ; send a".into(),
    ];
    for _ in 0..n {
        scripts.push(gen_script(&mut r));
    }
    for s in scripts {
        let line = format!("hreuse | {}", s);
        let t = run_script(&s);
        for op in s.split(';') {
            out.count(&format!("op_{}", op.trim().split_whitespace().next().unwrap_or("?")));
        }
        if t.matches("send").count() >= 1 && t.contains("=ok:") {
            out.nontrivial(&line);
        }
        for (c, w) in oracle(&t) {
            out.violation(&c, &format!("{}: {} | {}", c, w, t), &line);
        }
        out.case(&line, &t);
    }
    out.finish(dir);
}
