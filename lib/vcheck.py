import json, os, re, subprocess, sys, time, hashlib, shutil

ROOT = os.path.dirname(os.path.dirname(os.path.abspath(__file__)))
COQ = os.path.join(ROOT, "coq")
EXTR = os.path.join(ROOT, "extraction")
HARN = os.path.join(ROOT, "harness")
WORK = os.path.join(ROOT, "work")
REPO = "/repo"

sys.path.insert(0, os.path.join(ROOT, "lib"))
from props import PROPS, GLOBAL_TRUSTED_BASE, AXIOM_ALLOW  # noqa: E402

FORBIDDEN = re.compile(
    r"\b(Admitted|admit|Axiom|Axioms|Parameter|Parameters|Conjecture|Conjectures|Abort All)\b|"
    r"Unset\s+Guard|Unset\s+Positivity|Unset\s+Universe|bypass_check|type-in-type|impredicative-set|Admit\s+Obligations"
)


def sh(cmd, cwd=None, timeout=3600, env=None, quiet=True):
    e = dict(os.environ)
    e["CARGO_NET_OFFLINE"] = "true"
    if env:
        e.update(env)
    try:
        p = subprocess.run(cmd, cwd=cwd, shell=isinstance(cmd, str), stdout=subprocess.PIPE,
                           stderr=subprocess.STDOUT, timeout=timeout, env=e, text=True, errors="replace")
    except subprocess.TimeoutExpired as ex:
        # a command that does not come back (an endpoint or a decoder that spins) is reported, not waited for
        out = ex.stdout if isinstance(ex.stdout, str) else (ex.stdout or b"").decode(errors="replace")
        return 124, (out or "") + "\nTIMEOUT: `%s` had not finished after %d s" % (cmd if isinstance(cmd, str) else " ".join(cmd), timeout)
    return p.returncode, p.stdout


def strip_comments(text):
    out, depth, i = [], 0, 0
    while i < len(text):
        if text.startswith("(*", i):
            depth += 1; i += 2
        elif text.startswith("*)", i) and depth > 0:
            depth -= 1; i += 2
        else:
            if depth == 0:
                out.append(text[i])
            i += 1
    return "".join(out)


def forbidden_scan():
    """No Admitted/Axiom/... anywhere in the development (comments stripped)."""
    hits = []
    for d, _, fs in os.walk(COQ):
        for f in fs:
            if f.endswith(".v"):
                p = os.path.join(d, f)
                txt = strip_comments(open(p, errors="replace").read())
                for m in FORBIDDEN.finditer(txt):
                    hits.append("%s: %s" % (os.path.relpath(p, ROOT), m.group(0)))
    p = os.path.join(EXTR, "Extract.v")
    txt = strip_comments(open(p).read())
    for m in re.finditer(r"Extract\s+(Constant|Inductive|Inlined)", txt):
        hits.append("extraction/Extract.v: %s" % m.group(0))
    return hits


def regenerate_tables():
    """Translator: /repo source tables -> coq/Gen/*.v (rewritten only when changed)."""
    tr = os.path.join(ROOT, "translator", "translate.py")
    if not os.path.exists(tr):
        return True, "no translator"
    rc, out = sh([sys.executable, tr, REPO, os.path.join(COQ, "Gen")], timeout=300)
    return rc == 0, out


def coq_build(target, timeout=3000):
    rc, out = sh("./mk %s" % target, cwd=COQ, timeout=timeout)
    return rc == 0, out


def theorem_names(prop):
    p = os.path.join(COQ, "Props", prop + ".v")
    txt = strip_comments(open(p).read())
    return re.findall(r"^\s*(?:Theorem|Lemma|Example)\s+(\w+)", txt, re.M)


def print_assumptions(prop, names):
    """Re-run Print Assumptions for every property theorem in a scratch file."""
    d = os.path.join(WORK, "assm")
    os.makedirs(d, exist_ok=True)
    f = os.path.join(d, "A_%s.v" % prop)
    with open(f, "w") as fh:
        fh.write("From FV Require Import Props.%s.\n" % prop)
        for n in names:
            fh.write('Goal True. idtac "@@ %s". exact I. Qed.\nPrint Assumptions %s.\n' % (n, n))
    rc, out = sh(["coqc", "-Q", COQ, "FV", "-w", "-all", f], cwd=d, timeout=600)
    res, cur = {}, None
    for line in out.splitlines():
        if line.startswith("@@ "):
            cur = line[3:].strip(); res[cur] = []
        elif cur is not None and line.strip():
            res[cur].append(line.rstrip())
    return rc == 0, res, out


def assumptions_ok(res):
    bad = []
    digest = {}
    for name, lines in res.items():
        txt = " ".join(lines)
        if "Closed under the global context" in txt:
            digest[name] = "closed"
            continue
        axioms = re.findall(r"^([\w.']+)\s*:", "\n".join(lines), re.M)
        digest[name] = axioms
        for a in axioms:
            if a not in AXIOM_ALLOW:
                bad.append("%s depends on %s" % (name, a))
    return bad, digest


def extraction_targets():
    """the .vo files Extract.v imports (a model file may have changed without the property file of this check depending on it)"""
    txt = open(os.path.join(EXTR, "Extract.v")).read()
    m = re.search(r"From FV Require Import\s+(.*?)\.\s*\n", txt, re.S)
    mods = re.findall(r"\b([A-Z]\w*\.[A-Z]\w*)\b", m.group(1)) if m else []
    return " ".join(x.replace(".", "/") + ".vo" for x in mods)


def build_oracle():
    tg = extraction_targets()
    if tg:
        okc, outc = coq_build(tg)
        if not okc:
            return False, "the models the oracle is extracted from do not build:\n" + outc[-1500:]
    src = [os.path.join(EXTR, "Extract.v"), os.path.join(EXTR, "driver.ml")]
    vo = []
    for d, _, fs in os.walk(COQ):
        vo += [os.path.join(d, f) for f in fs if f.endswith(".vo")]
    orc = os.path.join(EXTR, "oracle")
    if os.path.exists(orc):
        t = os.path.getmtime(orc)
        if all(os.path.getmtime(p) <= t for p in src + vo):
            return True, "up to date"
    rc, out = sh("./build.sh", cwd=EXTR, timeout=1200)
    return rc == 0 and os.path.exists(orc), out


def build_harness(release=False):
    lock = os.path.join(REPO, "Cargo.lock")
    if os.path.exists(lock):
        shutil.copyfile(lock, os.path.join(HARN, "Cargo.lock"))
    cmd = "cargo build --offline" + (" --release" if release else "")
    rc, out = sh(cmd, cwd=HARN, timeout=3000)
    return rc == 0, out


def run_sub(prop, sub, seed, n, thorough, corpus, release=False, extra=None):
    d = os.path.join(WORK, prop, sub["name"])
    shutil.rmtree(d, ignore_errors=True)
    os.makedirs(d, exist_ok=True)
    exe = os.path.join(HARN, "target", "release" if release else "debug", "vh")
    cmd = [exe, sub["name"], "--seed", str(seed), "--n", str(n), "--dir", d]
    if thorough:
        cmd.append("--thorough")
    if corpus and os.path.exists(corpus):
        cmd += ["--corpus", corpus]
    if extra:
        cmd += extra
    rc, out = sh(cmd, cwd=HARN, timeout=sub.get("timeout", 3000 if thorough else 900))
    return rc, out, d


def run_oracle(d):
    cases = os.path.join(d, "cases.txt")
    model = os.path.join(d, "model.txt")
    with open(cases) as fi, open(model, "w") as fo:
        p = subprocess.run([os.path.join(EXTR, "oracle")], stdin=fi, stdout=fo, stderr=subprocess.PIPE, timeout=3000)
    return p.returncode == 0, p.stderr.decode(errors="replace")


def diff_outputs(d, limit=20):
    """Line-by-line comparison of impl.txt and model.txt; returns list of (case, impl, model)."""
    cases = open(os.path.join(d, "cases.txt")).read().splitlines()
    impl = open(os.path.join(d, "impl.txt")).read().splitlines()
    model = open(os.path.join(d, "model.txt")).read().splitlines()
    dis = []
    n = 0
    if not (len(cases) == len(impl) == len(model)):
        dis.append(("<line counts>", "impl=%d" % len(impl), "model=%d cases=%d" % (len(model), len(cases))))
    for c, i, m in zip(cases, impl, model):
        n += 1
        if i.strip() != m.strip():
            if len(dis) < limit:
                dis.append((c, i, m))
            else:
                dis.append(None)
    total = len(dis)
    return [x for x in dis if x is not None], total, n


def load_known():
    p = os.path.join(ROOT, "known_findings.json")
    if not os.path.exists(p):
        return []
    return json.load(open(p))["findings"]


def write_replay(prop, seed, kind, body):
    d = os.path.join(WORK, "replays")
    os.makedirs(d, exist_ok=True)
    p = os.path.join(d, "%s_%s_%s.txt" % (prop, kind, seed))
    with open(p, "w") as fh:
        fh.write(body)
    return p


def write_evidence(prop, ev):
    d = os.path.join(ROOT, "evidence")
    os.makedirs(d, exist_ok=True)
    with open(os.path.join(d, prop + ".json"), "w") as fh:
        json.dump(ev, fh, indent=1)


def replay(prop, path):
    """Re-run the case(s) recorded in a replay file on the implementation."""
    spec = PROPS[prop]
    ok, out = build_harness()
    if not ok:
        print(out[-3000:]); return 2
    lines = [l for l in open(path).read().splitlines() if l.startswith("case: ")]
    if not lines:
        print(open(path).read()); return 0
    tmp = os.path.join(WORK, "replays", "_corpus_%s.txt" % prop)
    rc_all = 0
    for sub in spec["subs"]:
        mine = [l[6:] for l in lines if l[6:].startswith(sub.get("tag", sub["name"]) + " ")]
        if not mine:
            continue
        with open(tmp, "w") as fh:
            fh.write("\n".join(mine) + "\n")
        rc, out, d = run_sub(prop, sub, 0, 0, False, tmp)
        st = json.load(open(os.path.join(d, "stats.json")))
        for c, i in zip(open(os.path.join(d, "cases.txt")).read().splitlines(), open(os.path.join(d, "impl.txt")).read().splitlines()):
            print("case:", c); print("impl:", i)
        if sub.get("oracle", True):
            build_oracle(); run_oracle(d)
            for m in open(os.path.join(d, "model.txt")).read().splitlines():
                print("model:", m)
        for v in st["violations"]:
            print("violation:", v["what"]); rc_all = 1
    return rc_all


def main(argv):
    t0 = time.time()
    if not argv:
        print("usage: check <Cxx> [--tier quick|thorough] [--replay FILE]"); return 2
    prop = argv[0]
    tier = os.environ.get("VERIF_TIER", "quick")
    replay_file = None
    i = 1
    while i < len(argv):
        if argv[i] == "--tier":
            tier = argv[i + 1]; i += 2
        elif argv[i] == "--replay":
            replay_file = argv[i + 1]; i += 2
        else:
            print("unknown argument", argv[i]); return 2
    if prop not in PROPS:
        print("unknown property", prop); return 2
    if replay_file:
        return replay(prop, replay_file)
    seed = int(os.environ.get("VERIF_SEED", "20260925"))
    thorough = tier == "thorough"
    spec = PROPS[prop]
    os.makedirs(WORK, exist_ok=True)
    log = []
    broken = []          # proof obligations / ties / correspondences that no longer check
    violations = []      # concrete property violations on the implementation (class, what, case)

    # ---- 1. tables, proofs -------------------------------------------------
    ok, out = regenerate_tables()
    if not ok:
        broken.append(("translator", "the translator could not regenerate coq/Gen from /repo:\n" + out[-2000:]))
    hits = forbidden_scan()
    if hits:
        broken.append(("forbidden", "forbidden constructs in the development: " + "; ".join(hits)))
    names = theorem_names(prop)
    ok, out = coq_build("Props/%s.vo" % prop)
    discharged = 0
    digest = {}
    if not ok:
        m = re.search(r'File "([^"]+)", line (\d+)[^\n]*\n(.*)', out, re.S)
        where = (m.group(1) + ":" + m.group(2)) if m else "?"
        broken.append(("coq", "coq build of Props/%s.vo failed at %s:\n%s" % (prop, where, out[-2500:])))
    else:
        ok2, res, raw = print_assumptions(prop, names)
        if not ok2:
            broken.append(("assumptions", "Print Assumptions run failed:\n" + raw[-2000:]))
        bad, digest = assumptions_ok(res)
        if bad:
            broken.append(("axioms", "; ".join(bad)))
        discharged = sum(1 for n in names if n in res)
        if thorough:
            # independent re-check of the compiled files and everything they depend on
            r = subprocess.run("timeout 3000 coqchk -o -silent -Q . FV FV.Props.%s" % prop, shell=True, cwd=os.path.join(ROOT, "coq"),
                               stdout=subprocess.PIPE, stderr=subprocess.STDOUT, text=True)
            tail = r.stdout[-1500:]
            coqchk_ok = (r.returncode == 0 and "Axioms: <none>" in tail and "type-in-type: <none>" in tail
                         and "unsafe (co)fixpoints: <none>" in tail and "positivity is assumed: <none>" in tail)
            digest["coqchk"] = "ok: axioms none, no type-in-type, no unsafe fixpoints, no assumed positivity" if coqchk_ok else "FAILED"
            if not coqchk_ok:
                broken.append(("coqchk", "coqchk -o on FV.Props.%s did not confirm an axiom-free development:\n%s" % (prop, tail)))
    obligations = len(names)

    # ---- 2. harness + oracle ----------------------------------------------
    release = thorough and spec.get("release_in_thorough", False)
    okh, outh = build_harness(release)
    cov = {"evaluations": 0, "distinct_nontrivial": 0, "samples": [], "disagreements_checked": 0,
           "input_distribution": {}, "sub_harnesses": []}
    if not okh:
        broken.append(("harness-build", "the harness no longer builds against /repo:\n" + outh[-3000:]))
    else:
        oko, outo = (True, "")
        if any(s.get("oracle", True) for s in spec["subs"]):
            oko, outo = build_oracle()
            if not oko:
                broken.append(("oracle-build", "the extracted oracle does not build:\n" + outo[-2000:]))
        for sub in spec["subs"]:
            n = sub["n_thorough"] if thorough else sub["n_quick"]
            corpus = os.path.join(ROOT, "corpus", sub.get("corpus", sub["name"] + ".txt"))
            rc, out, d = run_sub(prop, sub, seed, n, thorough, corpus, release)
            stp = os.path.join(d, "stats.json")
            if rc != 0 or not os.path.exists(stp):
                # a crash of the harness binary is an observation about the implementation
                violations.append(("harness-crash:" + sub["name"],
                                   "sub-harness %s exited with %s: %s" % (sub["name"], rc, out[-1500:]), ""))
                continue
            st = json.load(open(stp))
            cov["evaluations"] += st["n_cases"]
            cov["distinct_nontrivial"] += st.get("distinct_nontrivial", 0)
            cov["samples"] += st["samples"][:3]
            cov["input_distribution"][sub["name"]] = st["stats"]
            cov["sub_harnesses"].append({"name": sub["name"], "cases": st["n_cases"], "rule": sub.get("rule", "")})
            prefixes = spec.get("class_prefixes")
            for v in st["violations"]:
                if prefixes and not any(v["class"].startswith(px) for px in prefixes):
                    continue    # belongs to another property's check
                violations.append((v["class"], v["what"], v["case"]))
            if sub.get("oracle", True) and oko:
                okr, err = run_oracle(d)
                if not okr:
                    broken.append(("oracle-run", "oracle failed on %s: %s" % (sub["name"], err[-1000:])))
                    continue
                dis, total, compared = diff_outputs(d)
                cov["disagreements_checked"] += compared
                if total and sub.get("reference"):
                    # the model of this sub is the specification itself (not a model of the code): a case on which the
                    # implementation differs from it is a failing input of the property
                    for c, i, m in dis[:50]:
                        violations.append((sub["reference"], "%s: the implementation gives `%s`, the specification-derived reference gives `%s`"
                                           % (sub["reference"], i[:300], m[:300]), c))
                mk = sub.get("marker_violation")
                if total and mk:
                    # the model side refuses to run because the code departs from the specification table the theorems are
                    # about: for this property that departure is itself the failing input
                    for c, i, m in dis[:50]:
                        if m.startswith(mk["prefix"]):
                            violations.append((mk["class"], "%s (implementation: `%s`)" % (m[:300], i[:200]), c))
                if total:
                    body = "".join("case: %s\nimpl:  %s\nmodel: %s\n\n" % x for x in dis[:10])
                    broken.append(("correspondence:" + sub["name"],
                                   "%d of %d cases: the Coq model (%s) and the implementation disagree\n%s"
                                   % (total, compared, sub.get("model", "?"), body)))

    # ---- 3. verdict ----------------------------------------------------------
    known = [k for k in load_known() if k["property"] == prop and k["status"] == "known"]
    known_classes = {k["class"]: k for k in known}

    def is_listed(v):
        # a recorded finding covers a violation of its class - and, when the entry names the inputs it is about
        # (case_pattern, a regular expression on the case line), only on those inputs
        k = known_classes.get(v[0])
        if k is None:
            return False
        pat = k.get("case_pattern")
        return pat is None or re.search(pat, v[2] or v[1]) is not None

    unlisted = [v for v in violations if not is_listed(v)]
    listed = {}
    for v in violations:
        if is_listed(v):
            listed.setdefault(v[0], []).append(v)
    rc = 0
    for cls, vs in sorted(listed.items()):
        print("KNOWN-FINDING: property=%s %s [%s] (%d occurrences this run, e.g. %s)"
              % (prop, known_classes[cls]["what"], cls, len(vs), vs[0][1][:160]))
    # known findings that are structural (witness lemma in Coq) are also announced when listed as always
    for k in known:
        if k.get("always") and k["class"] not in listed:
            print("KNOWN-FINDING: property=%s %s [%s]" % (prop, k["what"], k["class"]))
    if unlisted:
        body = "property %s violated on the implementation (%d observations)\n\n" % (prop, len(unlisted))
        seen = set()
        for cls, what, case in unlisted:
            if (cls, case) in seen:
                continue
            seen.add((cls, case))
            if len(seen) > 10:
                break
            body += "class: %s\nwhat:  %s\ncase: %s\n\n" % (cls, what, case)
        if broken:
            body += "also broken: " + "; ".join(b[0] for b in broken) + "\n"
        path = write_replay(prop, seed, "violation", body)
        print("VIOLATION property=%s replay=%s" % (prop, path))
        rc = 1
    elif broken:
        body = ("property %s is no longer shown to hold: the following no longer check, and the search "
                "(corpus + %d generated cases on the implementation with the direct property oracle) found no "
                "input on which the property itself fails.\n\n" % (prop, cov["evaluations"]))
        for kind, what in broken:
            body += "== %s ==\n%s\n\n" % (kind, what)
        path = write_replay(prop, seed, "broken", body)
        print("VIOLATION property=%s replay=%s no-failing-input-found" % (prop, path))
        rc = 1

    rule = spec["rule"]
    ev = {
        "property_id": prop, "tier": tier, "seed": seed, "level": "proof",
        "coverage": {
            "obligations": obligations, "discharged": discharged,
            "checker_cmd": "cd /verif/coq && ./mk Props/%s.vo  (coqc 8.16.1, full .vo build) ; Print Assumptions on every theorem of Props/%s.v" % (prop, prop),
            "trusted_base": GLOBAL_TRUSTED_BASE + spec.get("trusted", []),
            "theorems": names, "print_assumptions": digest,
            "partial": spec.get("partial", []),
            "evaluations": cov["evaluations"], "distinct_nontrivial": cov["distinct_nontrivial"],
            "rule": rule, "samples": cov["samples"][:8] if cov["samples"] else names[:3],
            "disagreements_checked": cov["disagreements_checked"],
            "input_distribution": cov["input_distribution"], "sub_harnesses": cov["sub_harnesses"],
            "exhaustive": False,
            "known_findings_reported": sorted(listed.keys()),
            "broken_obligations": [b[0] for b in broken],
        },
        "assumptions": spec.get("assumptions", []),
        "wall_s": round(time.time() - t0, 2),
        "violations": len(unlisted),
    }
    write_evidence(prop, ev)
    print("%s tier=%s seed=%d theorems=%d/%d cases=%d nontrivial=%d compared=%d broken=%d violations=%d wall=%.1fs"
          % (prop, tier, seed, discharged, obligations, cov["evaluations"], cov["distinct_nontrivial"],
             cov["disagreements_checked"], len(broken), len(unlisted), time.time() - t0))
    return rc
