#!/bin/bash
# run every registered check once (quick tier) on the current tree; refresh the evidence files
cd /verif
for p in $(python3 -c "import json;print(' '.join(c['property_id'] for c in json.load(open('MANIFEST.json'))['checks']))"); do
  out=$(./check $p 2>&1 | grep -E "VIOLATION|tier=" | tr '\n' ' ' | cut -c1-220)
  echo "$p: $out"
done
