#!/bin/bash
# replay every stored seeded change against the check of its property (quick tier); one line per change
cd /verif
for d in seeded/*/; do
  id=$(basename $d); prop=${id%%-*}
  [ -f $d/patch.diff ] || continue
  res=$(lib/seedtest.sh /verif/$d/patch.diff $prop 2>&1 | grep -oE "VIOLATION[^=]*property=C[0-9]+ replay=[^ ]*( no-failing-input-found)?|patch does not apply|repo not clean" | head -1)
  echo "$id: ${res:-NOT-DETECTED}"
done
