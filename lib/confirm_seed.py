#!/usr/bin/env python3
"""confirm_seed.py <mutation-out-dir> <orig-worktree-path> : confirm a seeded change in the scratch worktree /tmp/confirm
(own target dir): applies, suite failures are a subset of the pre-existing ones, the README's run block fails with the patch
and passes without.  Writes confirm.json into the mutation dir."""
import sys, os, re, subprocess, json
mdir, orig = sys.argv[1], sys.argv[2].rstrip('/')
W = '/tmp/confirm'
env = dict(os.environ, CARGO_NET_OFFLINE='true', CARGO_TARGET_DIR=W + '/target')
def sh(cmd, **kw):
    return subprocess.run(cmd, shell=True, cwd=W, env=env, stdout=subprocess.PIPE, stderr=subprocess.STDOUT, text=True, **kw)
if not os.path.isdir(W):
    subprocess.run('git -C /repo worktree add --detach %s HEAD -f' % W, shell=True, check=True)
sh('git checkout -q -- . && git clean -fdq -e target')
pre = set(l.strip() for l in open('/tmp/mut/preexisting_failures.txt') if l.strip())
res = {}
r = sh('git apply %s/patch.diff' % mdir)
res['applies'] = r.returncode == 0
# the run block
readme = open(mdir + '/README.md').read()
blocks = re.findall(r'```(?:\w*)\n(.*?)```', readme, re.S)
run = None
for b in blocks:
    if 'cargo' in b and ('test' in b or 'run' in b) and 'running ' not in b and 'test result' not in b:
        run = b; break
res['run_block'] = run
def demo():
    """the demonstration is an integration test file demo.rs (optionally demo.diff adding cfg(test) schedule points)"""
    src = mdir + '/demo.rs'
    if not os.path.exists(src): return None, 'no demo.rs'
    txt = open(src).read()
    crate = 'fe2o3-amqp' if ('fe2o3_amqp::' in txt or 'fe2o3_amqp ' in txt or 'fe2o3_amqp_types' in txt) else 'serde_amqp'
    sh('cp %s %s/tests/seed_demo.rs' % (src, crate))
    out = ''
    for feats in (('--features acceptor,transaction,scram', '') if ('acceptor' in txt or 'scram' in txt) else ('', '--features acceptor,transaction')):
        cmd = 'RUSTFLAGS="--cfg fe2o3_amqp_verif" CARGO_TARGET_DIR=%s/target/demo cargo test --offline -j12 -p %s %s --test seed_demo -- --test-threads=1 2>&1' % (W, crate, feats)
        r = sh(cmd, timeout=3000)
        out = r.stdout[-3000:]
        if 'could not compile' not in r.stdout and 'running 0 tests' not in r.stdout.split('seed_demo')[-1]: break
    sh('rm -f %s/tests/seed_demo.rs' % crate)
    return r.returncode, out
rc1, out1 = demo()
res['demo_with_patch_rc'] = rc1
# suite with the patch
old = json.load(open(mdir + '/confirm.json')) if os.path.exists(mdir + '/confirm.json') else None
if old and 'suite_failed' in old and old.get('suite_compiles'):
    for k in ('suite_new_failures', 'suite_failed', 'suite_compiles'): res[k] = old[k]
else:
    r = sh('cargo test --workspace --no-fail-fast --offline -j12 2>&1', timeout=6000)
    failed = set(l.strip() for l in r.stdout.splitlines() if re.match(r'^test .* FAILED$', l.strip()))
    res['suite_new_failures'] = sorted(failed - pre)
    res['suite_failed'] = len(failed)
    res['suite_compiles'] = 'error: could not compile' not in r.stdout
sh('git checkout -q -- . && git clean -fdq -e target')
rc0, out0 = demo()
res['demo_without_patch_rc'] = rc0
res['confirmed'] = bool(res['applies'] and res['suite_compiles'] and not res['suite_new_failures'] and rc1 not in (0, None) and rc0 == 0)
open(mdir + '/confirm.json', 'w').write(json.dumps(res, indent=1))
open(mdir + '/confirm_demo_with.log', 'w').write(out1 or '')
open(mdir + '/confirm_demo_without.log', 'w').write(out0 or '')
print(mdir, 'confirmed' if res['confirmed'] else 'NOT CONFIRMED', {k: v for k, v in res.items() if k != 'run_block'})
