HOOK_COMMITS = ["4d47cea"]

_PENDING = "no check registered yet: the model/theorems/correspondence for this property are not built at this commit (see DESIGN.md section 6 for the order of work)"
NOT_APPLICABLE = {("C%02d" % i): _PENDING for i in range(1, 21)}

META = {
    "C07": {
        "text": "Four theorems in Coq (Props/C07.v, closed under the global context) about an executable model of the session "
                "window core: for every initial id incl. the 2^32 wrap, every peer begin and every history of outgoing transfers, "
                "session flows and incoming transfers, emitted transfer-ids lie in the window last advertised, emitted++buffered = "
                "submitted (FIFO), nothing stays buffered while the advertised window is open, and ids/flow fields are exact. "
                "The model is tied to session/mod.rs by running both on the same histories through the cfg facade every run; "
                "a direct window/FIFO/counter oracle on the implementation's own output yields the replay.",
        "design_ref": "DESIGN.md section 4, C07",
        "note": "Trusted: Coq kernel; extraction (ExtrOcamlBasic); the hand-written model corresponds to the code only on the inputs "
                "the correspondence run exercised (distribution in the evidence); link-level part of a flow is C08/C09.",
        "technique": "Coq proof (invariant by induction over event histories) + extracted-model-vs-implementation correspondence",
    },
}
