HOOK_COMMITS = ["4d47cea", "08b09e0"]

_PENDING = "no check registered yet: the model/theorems/correspondence for this property are not built at this commit (see DESIGN.md section 6 for the order of work)"
NOT_APPLICABLE = {("C%02d" % i): _PENDING for i in range(1, 21)}

META = {
    "C07": {
        "text": "Four theorems in Coq (Props/C07.v, closed under the global context) about an executable model of the session "
                "window core: for every initial id incl. the 2^32 wrap, every peer begin and every history of outgoing transfers, "
                "session flows and incoming transfers, emitted transfer-ids lie in the window last advertised, emitted++buffered = "
                "submitted (FIFO), nothing stays buffered while the advertised window is open, and ids/flow fields are exact. "
                "The model is tied to session/mod.rs by running both on the same histories through the cfg facade every run; "
                "a direct window/FIFO/counter oracle on the implementation's own output yields the replay.",
        "design_ref": "DESIGN.md section 4, C07",
        "note": "Trusted: Coq kernel; extraction (ExtrOcamlBasic); the hand-written model corresponds to the code only on the inputs "
                "the correspondence run exercised (distribution in the evidence); link-level part of a flow is C08/C09.",
        "technique": "Coq proof (invariant by induction over event histories) + extracted-model-vs-implementation correspondence",
    },
    "C08": {
        "text": "Coq theorems (Props/C08.v): for every initial delivery-count incl. the wrap and every flow/send history a delivery "
                "leaves only inside [delivery-count_rcv, +link-credit_rcv) of the latest crediting flow; one credit per delivery; "
                "drain zeroes the credit, advances the count by the unused credit and replies with credit 0; and, over all "
                "interleavings of the waiting task with the granting task, no reachable state has the send asleep with credit "
                "available - stated for the check/register order re-extracted from the source each run (Tie_WakeOrder). "
                "Correspondence through the facade every run; a multi-thread stress of the real pair searches for a lost wake-up.",
        "design_ref": "DESIGN.md section 4, C08",
        "note": "Trusted: Coq kernel; extraction; Notify modelled by a generation counter (validated by stress, not proved about tokio); "
                "model tied to code on exercised inputs and by the regenerated order table.",
        "technique": "Coq proof (invariant over histories; invariant of an interleaving relation) + regenerated table + correspondence + stress search",
    },
}
