HOOK_COMMITS = ["66ae2ff", "e797fbb", "4d47cea", "08b09e0", "638d362", "9be4c8c", "faa97ab", "552021a", "27b6e74"]

_PENDING = "no check registered yet: the model/theorems/correspondence for this property are not built at this commit (see DESIGN.md section 6 for the order of work)"
NOT_APPLICABLE = {("C%02d" % i): _PENDING for i in range(1, 21)}

META = {
    "C07": {
        "text": "Four theorems in Coq (Props/C07.v, closed under the global context) about an executable model of the session "
                "window core: for every initial id incl. the 2^32 wrap, every peer begin and every history of outgoing transfers, "
                "session flows and incoming transfers, emitted transfer-ids lie in the window last advertised, emitted++buffered = "
                "submitted (FIFO), nothing stays buffered while the advertised window is open, and ids/flow fields are exact. "
                "The model is tied to session/mod.rs by running both on the same histories through the cfg facade every run; "
                "a direct window/FIFO/counter oracle on the implementation's own output yields the replay.",
        "design_ref": "DESIGN.md section 4, C07",
        "note": "Trusted: Coq kernel; extraction (ExtrOcamlBasic); the hand-written model corresponds to the code only on the inputs "
                "the correspondence run exercised (distribution in the evidence); link-level part of a flow is C08/C09.",
        "technique": "Coq proof (invariant by induction over event histories) + extracted-model-vs-implementation correspondence",
    },
    "C08": {
        "text": "Coq theorems (Props/C08.v): for every initial delivery-count incl. the wrap and every flow/send history a delivery "
                "leaves only inside [delivery-count_rcv, +link-credit_rcv) of the latest crediting flow; one credit per delivery; "
                "drain zeroes the credit, advances the count by the unused credit and replies with credit 0; and, over all "
                "interleavings of the waiting task with the granting task, no reachable state has the send asleep with credit "
                "available - stated for the check/register order re-extracted from the source each run (Tie_WakeOrder). "
                "Correspondence through the facade every run; a multi-thread stress of the real pair searches for a lost wake-up.",
        "design_ref": "DESIGN.md section 4, C08",
        "note": "Trusted: Coq kernel; extraction; Notify modelled by a generation counter (validated by stress, not proved about tokio); "
                "model tied to code on exercised inputs and by the regenerated order table.",
        "technique": "Coq proof (invariant over histories; invariant of an interleaving relation) + regenerated table + correspondence + stress search",
    },
    "C03": {
        "text": "Theorem C03_value_roundtrip (Coq, closed): for every well-formed AMQP value of any depth and size, decoding the "
                "encoder's bytes followed by arbitrary bytes returns the value and exactly the rest, with no decoder mode left over. "
                "Encoder/decoder models mirror ser.rs/de.rs function by function; format codes and size constants are regenerated from "
                "the source and proved equal to the specification's (Tie_FormatCodes). The models are run against to_vec/from_slice on "
                "generated values, their corruptions and hostile inputs every run; from_slice(to_vec(v)) == v is checked on the "
                "implementation for values and for every typed protocol item. Typed layer: C03_composite_roundtrip - for every list-encoded "
                "composite type of the protocol (table regenerated from the struct definitions and proved equal to the specification's, "
                "Tie_Composites) and every admissible field vector, the model of the derive macros' serializer (pending nulls, trailing-field "
                "elision, defaults) followed by the model of DescribedAccess / the derived visitor returns the field vector; both models are "
                "run against to_vec / from_slice::<T> on 28 types every run. Messages: C03_message_roundtrip - for every message with any subset of the optional sections and a body of one amqp-value section or a batch of data / amqp-sequence sections, the model of the message deserializer (section dispatch by descriptor, later section wins, batches as TransparentVecAccess reads them, at most seven rounds) applied to the serializer model's bytes returns the same sections; run against the real message codec every run (msg sub).",
        "design_ref": "DESIGN.md section 4, C03",
        "note": "Trusted: Coq kernel, extraction, translator; model tied to the code on exercised inputs. Known finding: arrays whose elements "
                "are null/list/map/array/described do not round-trip (witness theorem in Props/C03.v). Typed layer: list-encoded composites proved at the level of "
                "field vectors; enums, basic- and map-encoded types and whole messages tested, not proved.",
        "technique": "Coq proof (nested induction over the value type) + regenerated tables + extracted-model-vs-implementation correspondence",
    },
    "C04": {
        "text": "Theorems (Coq, closed): the decoder model never yields Panic for any bytes/state/fuel; fuel length+1 always suffices "
                "(recursion only after consuming a byte; loops bounded by capped counts); a successful decode returns a suffix. The "
                "unbounded recursion depth is proved as a refutation with a parametric witness (known finding), as observed on the "
                "implementation in a child process. Panics, peak allocation and re-decode stability are measured on the implementation "
                "for corrupted encodings, hostile catalogue and exhaustive short strings every run. C04_typed_layer_total extends no-panic / enough-fuel to the typed layer: the field loop of a composite, an enum of composites and a whole frame body.",
        "design_ref": "DESIGN.md section 4, C04",
        "note": "Trusted as C03. Known findings: stack depth grows with nesting; an array of zero-width elements allocates ~5 MB from 10 bytes.",
        "technique": "Coq proof (induction on fuel with a length measure) + correspondence + allocation/stack probes on the implementation",
    },
    "C20": {
        "text": "Theorem C20_size_is_length (Coq, closed): the SizeSerializer model and the Serializer model agree (size = length, and they "
                "fail together) for every value in every serializer position, except arrays with described elements (refutation witness; "
                "known finding). serialized_size vs to_vec length, slice-vs-io reader results and to_value/from_value are compared on "
                "the implementation every run. Typed layer: C20_composite_size_is_length - for every composite schema and field vector the SizeSerializer model driven by the derived serialize (pending nulls, elision, defaults) gives the length of the bytes of the Serializer model; serialized_size is compared with the model and with to_vec on 28 composite types every run.",
        "design_ref": "DESIGN.md section 4, C20",
        "note": "Trusted as C03. The io-reader and value-tree parts are differential tests on the implementation, not theorems.",
        "technique": "Coq proof (nested induction) + correspondence + differential testing of the entry points",
    },
    "C06": {
        "text": "Theorems (Coq, closed): for every max-frame-size M >= 512, channel, payload and fitting performative encodings a transfer "
                "is written as length-prefixed frames each <= M and each with a header, laid out first/middle*/last with payload parts "
                "concatenating to the payload and all but the last frame exactly M bytes, so start_send's cuts fall on frame boundaries; any "
                "other performative is one frame or an error; the length-delimited decoder delivers the same frames under every partition "
                "of the byte stream into reads, and decodes what the encoder wrote. Framing constants are regenerated from the source "
                "(Tie_FrameConsts). The real Transport's bytes are compared with the model every run and parsed by an independent parser. Frame codec: C06_frame_roundtrip - for every channel, every performative of the protocol with any admissible field vector and, for a transfer, any payload, the model of FrameDecoder (header rules, Performative dispatch on the descriptor, typed field loop, payload) applied to the bytes of the model of FrameEncoder returns exactly that frame; both are run against the real Transport / FrameDecoder every run (sub fdec). C06_transfer_wire_decodes composes the transfer layout with the typed layer and the frame decoder (see C01_wire_transfer_read_back). Fixed defect found by the fdec correspondence: a transfer whose performative does not fit a frame panicked in encode_transfer (65f9300).",
        "design_ref": "DESIGN.md section 4, C06",
        "note": "Trusted: Coq kernel, extraction, translator, the model of tokio-util's decoder (validated by running). Fixed defect: "
                "oversize non-transfer frames were chopped (a2409e6).",
        "technique": "Coq proof (arithmetic + induction over chunk lists) + regenerated constants + extracted-model-vs-Transport correspondence",
    },
    "C02": {
        "text": "Theorems (Coq, closed) about the session/link-relay settlement model: a send is resolved only by a settled or terminal "
                "disposition covering its own delivery-id, with that disposition's state, and at most once; in rcv-settle-mode=second "
                "the settled echoes cover exactly the ids with a terminal unsettled report on second-mode sender links and carry the "
                "reported state; a settled disposition is not echoed; a settled or echoed delivery is forgotten by the session. "
                "The model is run against the real Session/LinkRelay through the facade on random disposition histories every run, "
                "with a direct outcome/echo/retention oracle on the implementation.",
        "design_ref": "DESIGN.md section 4, C02",
        "note": "Trusted: Coq kernel, extraction, facade. Three defects repaired (4c3b656 last run never echoed; e2bdfee echo on "
                "non-terminal state; 56274c9 echoed deliveries retained in the session map).",
        "technique": "Coq proof (invariants over the disposition loop) + extracted-model-vs-implementation correspondence",
    },
    "C11": {
        "text": "Theorems (Coq, closed): transfer-ids on the wire are consecutive and a frame carries a delivery-id exactly when it carries "
                "a tag (its own transfer-id), while the link-level split puts the tag on the first frame only - so deliveries get "
                "strictly increasing ids and all frames of a delivery carry the same id or none; after any history no two live links "
                "share a handle and no name is attached twice; a new handle/channel is unused and either brand new or released; "
                "channels never exceed the agreed channel-max; an incoming frame is routed to the link/session the peer's "
                "handle/channel was bound to and binding one handle leaves the others unchanged. The models are run against the real "
                "Session and Connection through the facade on random histories every run.",
        "design_ref": "DESIGN.md section 4, C11",
        "note": "Trusted: Coq kernel, extraction, facade, the slab model. Fixed defect: a delivery split at link level into exactly two "
                "frames got two delivery-ids (9ae4fe4).",
        "technique": "Coq proof (invariants of slab + maps over operation lists) + extracted-model-vs-implementation correspondence",
    },
    "C12": {
        "text": "Theorems (Coq, closed) about the connection lifecycle model Conn/Lifecycle.v, for every list of local operations "
                "(open, close, close_with_error, drop) and peer actions (header, garbage header, open early/late, close with or without "
                "error, illegal frames, empty frames, EOF): what is written is a prefix of header, open, one close and nothing after; "
                "a peer close is answered whenever the open is on the wire and no close yet; after a close with an error nothing is "
                "written and nothing changes until the peer's close or EOF; an illegal frame yields a close with an error and the "
                "discarding state; close() reports Ok for a clean close whatever was in flight and the peer's error when it sent one. "
                "The model is run against the real ConnectionEngine (tokio current-thread runtime, paused clock, in-memory duplex, "
                "scripted byte-level peer, one stimulus per quiescence barrier) on random and enumerated scripts every run, and the "
                "property is also checked directly on the observed traces. C12_any_frame_on_open_connection: the same lifecycle model driven by the BYTES of a frame (decoded and classified by the model: Conn/WireEvents.v) - compared with the real engine on raw frames every run.",
        "design_ref": "DESIGN.md section 4, C12",
        "note": "Trusted: Coq kernel, extraction, the scripted-peer harness (barrier = 1 ms of paused time). Sessions are not part of "
                "this model (C13). Fixed defects: busy-spin after close (cbb5a70), peer close before open waited for twice (a23b605), "
                "illegal frame before open closed without error (ee0eb3a), in-flight frames after local close made a clean close "
                "report IllegalState (c56ec95).",
        "technique": "Coq proof (state invariant lifted over event lists) + extracted-model-vs-engine correspondence on scripted-peer traces",
    },
    "C17": {
        "text": "Theorems (Coq, closed): after any history on a connection that agreed on min(local, remote) channel-max a session is "
                "only begun on a channel within both limits and the only refusal is the local channel-max error, raised exactly when the "
                "next free channel is above the agreed maximum; with a peer idle-time-out r > 0, while the connection stays open every "
                "window of r ms since the open contains a written frame; with a local idle-time-out l > 0 a connection still running has "
                "heard from the peer less than l ms ago, the deadline fires exactly l ms after the last arrival and never without a "
                "configured time-out. The timed model is run against the real engine under tokio's paused clock with time-stamped wire "
                "observations; the channel model against the real Connection through the facade.",
        "design_ref": "DESIGN.md section 4, C17",
        "note": "Trusted: Coq kernel, extraction, tokio's paused timer wheel, the scripted-peer harness. Heartbeats under session "
                "back-pressure are not modelled (partial). Fixed defect found here: heartbeats kept being written after close_with_error (5dd1d8c).",
        "technique": "Coq proof (timer invariants over scripts; slab invariant over histories) + extracted-model-vs-engine correspondence under virtual time",
    },
    "C09": {
        "text": "Theorems (Coq, closed) about the receiving-link model Link/Receiver.v: in every step either no delivery is returned or no flow is "
                "written and the deliveries returned are taken off the credit held, and with no credit a completed delivery is refused with the "
                "transfer-limit error; every flow reports the delivery-count and credit the link holds; in Auto(n) mode, n >= 1, a stream of any "
                "length from a sender that sends one delivery at a time to an application that accepts each one is received completely with no "
                "refusal. The accounting clause is refuted with a witness (a peer flow overtakes queued transfers, which are then counted twice) "
                "and recorded as known finding c09-dc-double-count. The model is run against the real Receiver (scripted sender peer) every run.",
        "design_ref": "DESIGN.md section 4, C09",
        "note": "Trusted: Coq kernel, extraction, scripted-peer harness, hook reading the final link state. Known finding: c09-dc-double-count.",
        "technique": "Coq proof (step invariants, induction over rounds; refutation witness) + extracted-model-vs-engine correspondence",
    },
    "C10": {
        "text": "Theorems (Coq, closed) about Link/Receiver.v: however a delivery is cut into a first frame, any number of consistent continuation frames "
                "(fields omitted or repeated, empty payloads) and a final frame, nothing is returned before the final frame and the final frame returns "
                "exactly the concatenation of the payloads, once, using one credit; an aborted frame returns nothing and leaves a clean state; a "
                "contradictory continuation is an error and the delivery is dropped. The model is run against the real Receiver on random fragmentations "
                "(every byte offset, empty frames, abort, contradiction) and the returned message is compared byte for byte with the message sent.",
        "design_ref": "DESIGN.md section 4, C10",
        "note": "Trusted: Coq kernel, extraction, scripted-peer harness; message decoding itself is C03/C05. Fixed defect: after an inconsistent "
                "continuation the remaining frames were spliced onto the kept buffer (0dd17a9).",
        "technique": "Coq proof (induction over continuation frames) + extracted-model-vs-engine correspondence with byte comparison of messages",
    },
    "C13": {
        "text": "Theorems (Coq, closed) about the session lifecycle model Session/SessLife.v, for every interleaving of begin, end, end_with_error, drop and "
                "cancelled end with a protocol-abiding peer: the channel carries one begin, at most one end and nothing after; a peer's end is answered in "
                "the same step unless ours is already out; end()/end_with_error() complete only in the step that consumes the peer's end (or later from the "
                "stored result) and report the peer's error. About the sender-link model Link/LinkLife.v: after its detach the link writes no transfer and no "
                "second detach except in one named transition (refutation witness given); an unseen peer detach is answered by the next operation, in kind for "
                "close/drop/blocked send (detach() after a closing detach is not: witness); detach()/close() return only on the peer's detach and carry its error. "
                "About the receiver-link model Link/RecvLife.v: after its detach the link writes no flow, no disposition and no second detach except in one named "
                "transition (witness); an unseen peer detach is answered by the next operation unless that is a recv() returning a delivery queued before it (witness), "
                "in kind for close/drop/recv (detach() is not: witness); detach()/close() return only on the peer's detach; the peer's error reaches recv() and close() "
                "but not detach() (witnesses); the link ends its session exactly when a delivery arrives for a dropped handle (witness). "
                "All three models are run against the real engines every run; session+link scripts are also checked by a direct oracle.",
        "design_ref": "DESIGN.md section 4, C13",
        "note": "Trusted: Coq kernel, extraction, scripted-peer harness. Partial: link clauses proved with named exceptions; one link per session in the models. "
                "Known findings: c13-second-detach, c13-detach-kind, c13-peer-detach-error-lost, c13-transfer-after-remote-detach.",
        "technique": "Coq proof (state invariants over event lists, case analysis of the step function) + extracted-model-vs-engine correspondence; direct oracle on combined scripts",
    },
    "C14": {
        "text": "Theorems (Coq, closed) about the failure-propagation model Conn/Failure.v (connection, session, sender and receiver link with their stop-reason cells, channels, "
                "outcome slots and one operation in progress per handle), for every state reachable by any list of application calls, peer frames, transport failures and propagation "
                "steps: after a transport failure or a peer close, and one propagation step, both engines are stopped and no operation is pending on any handle; a peer end stops the "
                "session and completes end() and the link operations in the same step, leaving the connection untouched; a peer detach completes the operation on that link and "
                "leaves the other link, the session and the connection unchanged; calls issued after a stop complete in the step of the call; completions name the level that "
                "stopped and carry the peer's error exactly when the peer supplied one; the stop-reason cells are written once and before the channels close. The exceptions "
                "the code has are part of the statements, with refutation witnesses. The model is run against the real client every run on the abstracted cut cases; the "
                "concrete traces (every byte offset, every injection position) are judged by the direct oracle.",
        "design_ref": "DESIGN.md section 4, C14",
        "note": "Trusted: Coq kernel, extraction, trace abstraction, scripted peer. Fixed: outcomes pending after a session stop (0b39716) and after a closing detach (bc4ca04), send() "
                "after a peer detach (6e7bff8). Known findings: c14-hang-engine-stuck / c14-engine-alive (small pipe, non-reading peer), c14-hang-send-outcome (non-closing detach), "
                "c14-peer-error-lost-link, c14-wrong-scope-link, c14-data-op-ok-after-failure-link, c14-peer-error-lost-after-pipe-drop-link (all after a peer detach).",
        "technique": "Coq proof (inductive invariant over event lists) + extracted-model-vs-engine correspondence on abstracted fault-injection traces + direct oracle over every cut point",
    },
    "C16": {
        "text": "Theorems (Coq, closed). Receiving side (model Link/Receiver.v): dropping a pending recv() at any point of any history and re-issuing it yields the same "
                "final state and the same observations as the history without the cancellation. Sending side (model Link/SendCancel.v, send() at the granularity of its "
                "await points, any drop point per call): unless a call is dropped between two transfers of one message (only possible with a max-message-size split) the "
                "link's output is a sequence of whole deliveries with strictly increasing tags; the deliveries begun are the messages of the calls that reached their first "
                "transfer, once each, in call order; credit is conserved, and unless a call is dropped between taking its credit and queuing its first transfer every credit "
                "taken begins a delivery. The two exceptions are refuted with witnesses (known findings). Both models are run against the real link every run; the txc "
                "harness judges concrete traces directly (poll-count cancellation of send and recv).",
        "design_ref": "DESIGN.md section 4, C16",
        "note": "Trusted: Coq kernel, extraction, the drop-point search in the oracle driver, the harness. Partial: auto-accept recv cancellation decided by direct oracle only. "
                "Known findings: c16-send-partial, c16-send-starved-leak, c16-recv-lost, c16-recv-starved.",
        "technique": "Coq proof (invariants over event lists with arbitrary drop points) + extracted-model-vs-link correspondence (existential over drop points) + direct oracle",
    },
    "C18": {
        "text": "Theorems (Coq, closed) about the model of the listener-side transaction manager (Txn/Manager.v), for every event list over control-link attach / closing detach, "
                "data-link attach, declare, transactional and plain posts, commit, rollback, discharge of unknown ids or through a foreign control link, session end and transport "
                "loss: a message posted under a transaction is delivered by no step before the commit of that transaction; the commit delivers exactly the buffered posts, in posting "
                "order per link; rollback, loss of the control link, session end and transport loss deliver nothing now or later; declared ids are pairwise different; after a "
                "discharge every further discharge of or post under that id is refused and delivers nothing; unknown ids likewise; plain posts are delivered at once and touch "
                "nothing else. The model is run against the real listener every run (txnm); the full alphabet is judged by the direct oracle (txn). "
                "Controller side (model Txn/Controller.v, run against the real Controller / Transaction and a scripted coordinator every run: ctlm): in every run of declare / "
                "post / commit / rollback / discharge / drop calls, whatever the coordinator answers, every post and discharge written by a call on a handle names exactly "
                "the id the coordinator issued to the declare call the handle came from (C18_controller_right_id_on_the_wire, _final_rollbacks); commit writes fail = false "
                "first, rollback and drop only fail = true, and the call returns Ok exactly when the coordinator accepted, the coordinator's rejection when it rejected "
                "(C18_controller_fail_flag_and_verdict, _declare_verdict); once a handle is committed, rolled back, dropped or its discharge accepted, no call on it in any "
                "continuation writes a discharge again (C18_controller_discharged_at_most_once).",
        "design_ref": "DESIGN.md section 4, C18",
        "note": "Trusted: Coq kernel, extraction, scripted peers. Partial: controller side and retirements by direct oracle only. Fixed: controller calls hanging when the coordinator "
                "detaches (bc4ca04), plain Rejected on a post lost the error (7480238), aborts lost when >128 transactions are abandoned (a8cdb59). Known findings: c18-nontx-affected, "
                "c18-ctl-detach-zombie.",
        "technique": "Coq proof (state invariants and history lemmas over event lists) + extracted-model-vs-listener correspondence; controller clauses by direct oracle (partial)",
    },
    "C19": {
        "text": "Theorems (Coq, closed). Listener (model Auth/SaslListener.v): whatever the client does, if the listener ever writes outcome OK, the AMQP header or its open, or accept() "
                "returns a connection, the client's actions began with exactly the valid exchange; the first action that departs from it fails the negotiation at once with an error "
                "from accept() and nothing granted. SCRAM client (model Auth/ScramClient.v): whatever the server sends, if the client ever writes the AMQP header or its open, or "
                "open() returns a connection, the server's messages began with exactly the proving exchange (mechanisms offering the client's, a well-formed challenge whose nonce "
                "extends the client's, outcome ok with the server signature computed from the password); the first message that departs from it fails at once with an error from "
                "open() and nothing sent on; outcome ok without or with a wrong signature is refused. Both models are run against the real listener / client every run on "
                "abstracted scripts; concrete byte-level scripts (credential variants, malformed, fragmented, out-of-turn frames, 45 server tamperings) are judged by the direct oracle. "
                "From the bytes on the wire (Frame/SaslFrame.v, Auth/Plain.v, Auth/SaslWire.v): C19_sasl_frame_roundtrip - the SASL frame codec reads back what it writes, any of the five "
                "frames, any field values; C19_malformed_sasl_frame_is_an_error; C19_plain_credentials_exact - the PLAIN check passes on exactly the responses authzid NUL user NUL "
                "password; C19_plain_listener_any_frame_bytes - for EVERY byte string sent as the first frame to a PLAIN listener, either it decodes to a well-typed sasl-init whose "
                "initial response carries the configured user and password (then outcome ok and the AMQP header follow), or the negotiation fails at once with an error from accept() "
                "and nothing granted: this discharges the `CInitOk` letter of the action alphabet down to bytes for PLAIN. Run against the real FrameCodec and a real PLAIN listener every run (sfr).",
        "design_ref": "DESIGN.md section 0.8, C19",
        "note": "Trusted: Coq kernel, extraction, the harness's own SCRAM arithmetic (RFC vectors) which decides the validity class of a message. Fixed defects: PLAIN accepted extra "
                "NUL-separated fields (6ee43ef); SCRAM listener accepted a second init (51ebee0). Known finding (C15): the iteration count the server names is not capped.",
        "technique": "Coq proof (induction over client action / server message sequences) + extracted-model-vs-listener and -vs-client correspondence + direct oracle on byte-level scripts",
    },
    "C01": {
        "text": "Theorem (Coq, closed): for every message (any bytes, any length) and every frame size that leaves room for the transfer performatives, the frames "
                "produced by the model of the sending session's split, fed to the model of the receiving link, yield nothing before the last frame and then exactly one "
                "delivery with the message's bytes, id and tag; and for every LIST of messages of any sizes and every automatic credit n >= 1, when the application calls recv(), "
                "the frames of the next message arrive and the application accepts, over and over, the deliveries returned are exactly the messages sent, once each, in order, no "
                "delivery is refused for lack of credit and the link is idle again after every round (C01_stream_intact: composes the cut, the reassembly and the credit replenishment). The two models are tied to the code by the C07 (split_transfer against model and encoder) and C10 (Receiver "
                "against model) correspondences, re-run here; the composed real system (client, listener, both directions, re-chunked byte stream, generated "
                "configurations) is checked end to end by a direct oracle every run. On the wire: C01_wire_transfer_read_back - the four transfer performatives of encode_transfer built with the typed-layer model (as given / more / cleared / cleared+more), laid out as C06 proves, are read by the model of the receiving FrameDecoder frame by frame as transfer performatives with exactly the expected fields, the payload parts concatenating to the payload; both ends are run against the real Transport and FrameDecoder every run (fdec xfer cases). C01_wire_to_delivery closes the chain for a delivery that does not fit a frame: sending transport -> bytes of every frame -> receiving FrameDecoder -> the fields the receiving link reads -> receiving link with credit: nothing before the last frame, then exactly one delivery with the payload, the delivery-id and the tag of the first frame. C01_message_sections_intact is the last link: the payload handed over decodes to the sections of the message that was encoded (message codec model, run against the real codec every run).",
        "design_ref": "DESIGN.md section 4, C01",
        "note": "Trusted: Coq kernel, extraction, the harnesses. Fixed defect: transfer-ids were assigned per delivery, not per frame: sends stalled after a message "
                "larger than max-frame-size (83a401a). Known findings: deadlock with channel buffers of 1-2.",
        "technique": "Coq proof (composition of the sender-split and receiver-reassembly models) + model-vs-code correspondences of both parts + end-to-end direct oracle",
    },
    "C15": {
        "text": "Decided by exploration with a direct oracle: client and listener in 13 states x a catalogue of 180 hostile stimuli (framing, bodies, protocol violations) x 3 "
                "follow-ups, plus mutated frames: no panic, no stack overflow, no pending call after EOF, bounded time / response / allocation per frame, an error visible to "
                "the application, other connections unaffected. The theorems that bear on it are those of C04 (the decoder model is total, never panics, consumes a prefix) and "
                "the totality of the lifecycle step functions of C12/C13/C19; there is no Coq model of the engines under arbitrary frames. The frame decoder as a whole (header, dispatch on the descriptor, typed field loop, payload: Frame/AmqpFrame.v) is proved total - no panic for any bytes, fuel length+1 suffices - and is run against the real FrameDecoder on generated, re-headed, truncated and random frames every run. C15_any_frame_on_open_connection composes the frame decoder model with the connection lifecycle model: for EVERY byte string in a frame an open connection either ignores it (heartbeat), closes with an error and discards, answers the peer's close, or stops on a transport error - and writes nothing more afterwards; run against the real engine on raw frames every run (c12 pw events).",
        "design_ref": "DESIGN.md section 4, C15",
        "note": "Partial: exploration, not proof, for the engine-level clauses. Fixed defects found here: u32 overflow panic on a list count of 0xffffffff, 2^32-iteration loop "
                "on a disposition range, session error lost when the peer does not answer the end, listener handle / channel hijack by a second attach / begin. Known "
                "findings: unbounded decoder recursion, send() pending for ever, uncapped SCRAM iterations.",
        "technique": "catalogue x state exploration with a direct oracle (child processes, bounded stack and time) + the decoder theorems of C04 (partial)",
    },
    "C05": {
        "text": "Theorems (Coq, closed): for every well-formed value the encoder model's bytes are accepted by the specification-derived reference decoder as exactly that "
                "value; every encoding the reference decoder accepts is decoded by the decoder model to the same value under two explicit exclusions (zero-width-element arrays "
                "whose count exceeds the size field; non-empty arrays of compound elements) and distinct map keys - the unrestricted statement is refuted with witnesses. "
                "Every run: the real encoder's output and three hand-built variant encodings per generated value go through the extracted reference decoder and the real decoder. "
                "Composite types: the table of descriptors, field order and optional / mandatory / default / multiple regenerated from the struct definitions equals the "
                "specification's (C05_tie_composites); every layout of a field vector the specification allows (null or written-out defaults, empty array for an absent multiple "
                "field, trailing fields kept or dropped, list0/8/32, descriptor by code or name) decodes to that field vector (C05_composite_layouts_accepted), the library's own "
                "layout being one of them; a list that ends before a mandatory field is refused. Real from_slice::<T> against the model on such layouts every run.",
        "design_ref": "DESIGN.md section 4, C05",
        "note": "Trusted: Coq kernel, extraction, our reading of the specification in Codec/Spec.v, the variant encoder. Fixed defect: empty array with element constructor "
                "mis-decoded. Known finding: c05-zero-width-array-count.",
        "technique": "Coq proof (round trip against a specification-derived decoder; simulation of it by the decoder model; refutation witnesses) + correspondence on real and variant encodings",
    },
}
