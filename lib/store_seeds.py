#!/usr/bin/env python3
"""copy confirmed seeded changes from /tmp/mut/<id>-out/m<k> to /verif/seeded/<id>-m<k>/ (patch.diff, demonstration, meta.json)"""
import os, sys, json, shutil
det = json.load(open('/verif/seeded/detection.json')) if os.path.exists('/verif/seeded/detection.json') else {}
for ent in sorted(os.listdir('/tmp/mut')):
    if not ent.endswith('-out'): continue
    pid = ent[:-4]
    for k in sorted(os.listdir('/tmp/mut/' + ent)):
        src = '/tmp/mut/%s/%s' % (ent, k)
        if not (k.startswith('m') and os.path.isdir(src) and os.path.exists(src + '/patch.diff')): continue
        conf = json.load(open(src + '/confirm.json')) if os.path.exists(src + '/confirm.json') else None
        if not conf or not conf.get('confirmed'):
            print('skip (not confirmed):', src); continue
        dst = '/verif/seeded/%s-%s' % (pid, k)
        os.makedirs(dst, exist_ok=True)
        for f in ('patch.diff', 'patch_orig.diff', 'demo.rs', 'demo.diff', 'README.md'):
            if os.path.exists(src + '/' + f): shutil.copy(src + '/' + f, dst + '/' + f)
        meta = json.load(open(src + '/meta.json')) if os.path.exists(src + '/meta.json') else {}
        meta['confirmed'] = {x: conf[x] for x in ('applies', 'suite_compiles', 'suite_new_failures', 'demo_with_patch_rc', 'demo_without_patch_rc')}
        meta['detected_by'] = det.get('%s-%s' % (pid, k), meta.get('detected_by', 'not yet run'))
        json.dump(meta, open(dst + '/meta.json', 'w'), indent=1)
        print('stored', dst)
