#!/bin/sh
# usage: cmp.sh DIR  -- show disagreements between impl.txt and model.txt
d=$1
paste -d'\n' $d/cases.txt $d/impl.txt $d/model.txt | awk 'NR%3==1{c=$0} NR%3==2{i=$0} NR%3==0{ if (i!=$0) {n++; if (n<8) {print substr(c,1,400); print "  impl: " substr(i,1,400); print "  model:" substr($0,1,400)}}} END{print n+0 " disagreements"}'
