#!/usr/bin/env python3
"""Rebuild /verif/DESIGN.md: hand-written parts (lib/design/*.md) + the parts generated from lib/props.py,
lib/manifest_meta.py, known_findings.json, seeded/detection.json, coq/Props/*.v and the /repo history."""
import json, re, sys, subprocess, os
ROOT = os.path.dirname(os.path.dirname(os.path.abspath(__file__)))
sys.path.insert(0, os.path.join(ROOT, 'lib'))
from props import PROPS
from manifest_meta import META
k = json.load(open(os.path.join(ROOT, 'known_findings.json')))['findings']
det = json.load(open(os.path.join(ROOT, 'seeded', 'detection.json')))
commits = subprocess.run("git -C /repo log --format='%h %s' 0487928..HEAD", shell=True, capture_output=True, text=True).stdout.strip().split('\n')
fixes = [c for c in commits if ' fix:' in c]
hooks = [c for c in commits if 'verif hook' in c]
nv = int(subprocess.run("find %s/coq -name '*.v' | wc -l" % ROOT, shell=True, capture_output=True, text=True).stdout)
P = []; A = P.append
A("### 0.6 Hooks in `/repo`\n\nGuard: `--cfg fe2o3_amqp_verif` (set only in `/verif/harness/.cargo/config.toml`). With the guard off the baseline suite gives the same 406 passed / 16 failed (network and broker tests) as before. Commits:\n")
for c in hooks: A("* `%s`" % c)
A("")
A("### 0.7 Defects repaired in `/repo` (one `fix:` commit each) and defects recorded\n")
A("Every repair was found by one of the checks (a model/implementation disagreement, a direct-oracle violation or a refutation witness replayed on the code), is minimal, and leaves the baseline suite unchanged (406 passed, the same 16 network tests failing).  `known_findings.json` records for each the property, the class under which the check reports it if it ever returns, and the witness.  %d repairs:\n" % len(fixes))
for c in reversed(fixes): A("* `%s`" % c)
A("")
A("Defects recorded, not repaired (the repair is not small, or changes a design decision of the library); each is printed on every run as `KNOWN-FINDING: property=… <what fails>`; only violations of its own class - and, where the entry has a `case_pattern`, only on case lines matching it - are attributed to it:\n")
for e in k:
    if e['status'] == 'known':
        A("* **%s `%s`**%s - %s" % (e['property'], e['class'], (" (cases matching `%s`)" % e['case_pattern']) if e.get('case_pattern') else "", e['what'][:420] + ("…" if len(e['what']) > 420 else "")))
A("")
A("### 0.8 The properties as built\n")
A("For each property: what is proved (the text of `MANIFEST.json`), the theorems, the sub-harnesses that tie the model to the code or judge the code directly, and what is only partial.  `partial` always means: the theorem quantifies over everything the property quantifies over *in the model*; the part named is decided on the implementation by generated cases only, or holds with the stated exception.\n")
for pid in sorted(PROPS):
    m = META[pid]; sp = PROPS[pid]
    names = re.findall(r'^(?:Theorem|Example)\s+(\w+)', open(os.path.join(ROOT, 'coq', 'Props', pid + '.v')).read(), re.M)
    A("#### %s\n" % pid)
    A(m['text'] + "\n")
    A("* Technique: %s." % m['technique'])
    A("* Theorems / examples (`coq/Props/%s.v`, %d): %s." % (pid, len(names), ', '.join('`%s`' % n for n in names)))
    for s in sp['subs']:
        A("* Sub `%s`%s: %s" % (s['name'], (" - compared with the extracted model `%s`" % s['model']) if s.get('oracle', True) else " - direct oracle only", s['rule']))
    if sp.get('partial'): A("* Partial: " + ' / '.join(sp['partial']))
    if sp.get('assumptions'): A("* Assumptions: " + ' / '.join(sp['assumptions']))
    A("")
A("### 0.9 Seeded changes and the checks that catch them\n")
A("Each change was written by a fresh sub-agent that was given only the text of one property (from the second round on also a one-line description of the changes that existed already) and its own scratch worktree; it compiles, adds no failing test to the suite, and comes with a demonstration (`demo.rs`) that fails with the change and passes without - all three re-confirmed here in a scratch worktree (`lib/confirm_seed.py`) before the change was stored.  `lib/seedtest.sh seeded/<id>/patch.diff Cxx` replays one; `lib/seed_regress.sh` replays all of them (every stored change is reported as VIOLATION by the check of its property except those whose line below says NOT detected - one change of the seventh round, C16-m7, which the quick tier misses and for which no strengthening was built in the time left; it is kept so that the miss is visible).  *added after miss* = the check did not report the change (or only as a broken correspondence) at first and was strengthened.  %d changes:\n" % len(det))
A("| change | caught by |\n|---|---|")
for s, d in sorted(det.items()): A("| %s | %s |" % (s, d))
A("")
gen = '\n'.join(P)
rd = lambda n: open(os.path.join(ROOT, 'lib', 'design', n)).read()
a = rd('part_a.md')
a = re.sub(r'logical root `FV`, \d+ files', 'logical root `FV`, %d files' % nv, a)
a = re.sub(r'\* \d+ defects of the library were repaired', '* %d defects of the library were repaired' % len(fixes), a)
a = re.sub(r'\* \d+ seeded changes produced', '* %d seeded changes produced' % len(det), a)
open(os.path.join(ROOT, 'DESIGN.md'), 'w').write(rd('head.md') + a + gen + "\n" + rd('part_c.md') + rd('plan.md'))
print("DESIGN.md written: %d repairs, %d known, %d seeded" % (len(fixes), sum(1 for e in k if e['status'] == 'known'), len(det)))
