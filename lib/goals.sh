#!/bin/sh
# usage: goals.sh File.v LINE  -- print the goals after processing the first LINE lines
f=$1; n=$2
head -n $n $f > /tmp/_goals.v; echo "Show. " >> /tmp/_goals.v
cd /verif/coq && coqtop -Q . FV -w -notation-overridden < /tmp/_goals.v 2>&1 | tail -${3:-60}
