#!/bin/bash
# Run /repo's own test suite with the verification guard off; print totals and the failing test names.
cd /repo && CARGO_NET_OFFLINE=true RUSTFLAGS="" cargo test --workspace --no-fail-fast --offline > /tmp/baseline.log 2>&1
grep -E "^test result" /tmp/baseline.log | awk '{p+=$4; f+=$6} END {print "passed", p, "failed", f}'
grep -E "^test .* FAILED$|^    [a-z_:]+.*$" /tmp/baseline.log | grep FAILED | sort | md5sum
grep -E "^test .* FAILED$" /tmp/baseline.log | sort > /tmp/baseline.failed; wc -l < /tmp/baseline.failed
