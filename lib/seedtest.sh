#!/bin/bash
# usage: seedtest.sh <patch.diff> <Cxx> [Cyy ...]   -- apply a seeded change to /repo, run the checks, undo
patch="$1"; shift
cd /repo || exit 2
if [ -n "$(git status --porcelain --untracked-files=no)" ]; then echo "repo not clean"; exit 2; fi
git apply "$patch" || { echo "patch does not apply"; exit 2; }
for p in "$@"; do
  out=$(cd /verif && ./check "$p" 2>&1 | grep -E "VIOLATION|tier=|TRANSLATE|error" | head -8)
  echo "== $p: $out"
done
git -C /repo checkout -- .
(cd /verif && python3 translator/translate.py /repo coq/Gen >/dev/null)
