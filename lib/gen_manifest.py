#!/usr/bin/env python3
"""Writes MANIFEST.json from lib/props.py + lib/manifest_meta.py (kept in sync with what is built)."""
import json, os, sys
ROOT = os.path.dirname(os.path.dirname(os.path.abspath(__file__)))
sys.path.insert(0, os.path.join(ROOT, "lib"))
from props import PROPS
from manifest_meta import META, NOT_APPLICABLE, HOOK_COMMITS

checks = []
for pid in sorted(PROPS):
    m = META[pid]
    checks.append({
        "property_id": pid,
        "quick_cmd": "./check %s --tier quick" % pid,
        "thorough_cmd": "./check %s --tier thorough" % pid,
        "evidence_file": "/verif/evidence/%s.json" % pid,
        "replay_cmd_template": "./check %s --replay {path}" % pid,
        "engine": "coq-proof+correspondence",
        "level_claimed": {"category": "proof", "text": m["text"], "design_ref": m["design_ref"]},
        "level_note": m["note"],
        "technique": m["technique"],
    })
man = {
    "version": 1,
    "setup_cmd": "./setup.sh",
    "hooks": {
        "guard": "--cfg fe2o3_amqp_verif",
        "enable": "RUSTFLAGS=\"--cfg fe2o3_amqp_verif\" (set in /verif/harness/.cargo/config.toml); facade module fe2o3-amqp/src/verif.rs",
        "baseline_off_cmd": "cd /repo && CARGO_NET_OFFLINE=true cargo test --workspace --no-fail-fast --offline",
        "source_commits": HOOK_COMMITS,
        "add_only": True,
    },
    "engines": [
        {"name": "coq-proof+correspondence", "path": "/verif/coq, /verif/extraction, /verif/harness, /verif/check",
         "serves_properties": sorted(PROPS),
         "kind_free_text": "Coq 8.16.1 theorems about hand-written executable Gallina models; models extracted to OCaml (ExtrOcamlBasic) "
                           "and run against the Rust implementation on generated inputs/histories; constant tables regenerated from the source"},
    ],
    "checks": checks,
    "not_applicable": [{"property_id": k, "reason": v} for k, v in sorted(NOT_APPLICABLE.items()) if k not in PROPS],
    "notes": "See DESIGN.md. known_findings.json lists genuine defects recorded (known) or repaired by fix: commits (fixed).",
}
json.dump(man, open(os.path.join(ROOT, "MANIFEST.json"), "w"), indent=1)
print("MANIFEST.json written:", len(checks), "checks")
