"""Per-property configuration of the check driver."""

GLOBAL_TRUSTED_BASE = [
    "Coq 8.16.1 kernel (coqc, full .vo build; vm_compute used in examples/tie lemmas; native_compute not used)",
    "no axioms declared by the development (scan for Admitted/admit/Axiom/Parameter/Conjecture/Unset Guard on every run); "
    "Print Assumptions of every property theorem is collected on every run",
    "translator /verif/translator/translate.py (Rust source tables -> coq/Gen/*.v), trusted to copy tables faithfully",
    "extraction: Require Extraction + ExtrOcamlBasic only (bool, option, unit, list, prod, sumbool, sumor); "
    "no Extract Constant / Extract Inductive of our own; OCaml driver only parses and prints",
    "correspondence harness /verif/harness (differential testing of hand-written model vs implementation on generated inputs; "
    "the model is tied to the code only on the inputs actually run)",
    "cfg(fe2o3_amqp_verif) facade fe2o3-amqp/src/verif.rs (re-exports crate-private cores; add-only)",
]

# axioms of the Coq standard library that property theorems may depend on
AXIOM_ALLOW = set([
    "functional_extensionality_dep", "FunctionalExtensionality.functional_extensionality_dep",
    "Eqdep.Eq_rect_eq.eq_rect_eq", "proof_irrelevance", "ProofIrrelevance.proof_irrelevance",
    "Classical_Prop.classic", "JMeq.JMeq_eq", "JMeq_eq",
])

PROPS = {
    "C07": {
        "class_prefixes": ["c07-", "harness-crash"],
        "subs": [
            {"name": "lwin", "n_quick": 10, "n_thorough": 300, "oracle": False,
             "rule": "the session window on the listener side under pipelining: a scripted peer writes header, open, begin (incoming-window W0), the attach of a "
                     "receiving link and a flow carrying link credit and a NEW session window W1 before the listener's application has accepted session and "
                     "link (or, as a control, only afterwards); the application then sends 1..9 pre-settled messages: every transfer written lies inside the "
                     "window advertised last"},
            {"name": "c07", "n_quick": 3000, "n_thorough": 150000, "model": "coq/Session/Window.v",
             "rule": "random histories of outgoing transfers / session flows (truthful, unset or bogus next-incoming-id; "
                     "windows 0..5000 and 2^32-1) / incoming transfers, initial ids over-weighted within 200 of 0, 2^31 and 2^32; "
                     "corpus of former witnesses first; thorough adds all histories of length <= 4 over a 9-letter alphabet"},
            {"name": "frame", "n_quick": 400, "n_thorough": 20000, "model": "coq/Frame/SessionSplit.v",
             "rule": "ssplit cases: random transfer performatives and payload lengths around the multiples of the frame body size for max-frame-size "
                     "512..65536: the real split_transfer against the model's piece sizes, and every piece through the real frame encoder (must be one frame)"},
        ],
        "rule": "a case is one event history run through the real Session (facade) and the extracted Coq model; "
                "non-trivial = at least one transfer emitted and (a transfer was buffered or a drain batch occurred); distinct by case text",
        "trusted": ["model scope: Session::{on_outgoing_transfer, on_outgoing_transfer_inner, prepare_session_frames_*, "
                    "on_incoming_flow(_inner) session part, on_incoming_transfer counters, maybe_outgoing_session_flow, "
                    "on_outgoing_flow, on_incoming_begin}; link-level flow handling is C08/C09"],
        "assumptions": ["peer flow incoming-window < 2^32 (a u32 on the wire)",
                        "the session engine calls the modelled handlers one at a time (they take &mut self)"],
        "partial": [],
    },
    "C08": {
        "class_prefixes": ["c08-", "harness-crash"],
        "subs": [
            {"name": "c08", "n_quick": 4000, "n_thorough": 200000, "model": "coq/Link/SenderCredit.v",
             "rule": "random histories of link flows (delivery-count truthful / unset / bogus, credit 0..200, 2^32-1 or unset, drain, echo) "
                     "and send attempts; initial delivery-count over-weighted within 100 of 0 and 2^32"},
            {"name": "c07", "n_quick": 1500, "n_thorough": 30000, "model": "coq/Session/Window.v",
             "rule": "the session histories of C07, a quarter of whose flows carry link state for an attached sending link (delivery-count, credit, drain, echo): the link's "
                     "answer (model SenderCredit.snd_on_incoming_flow) must go out wrapped in a session flow, whatever else the same flow sets free (composition of both models "
                     "in the oracle driver)"},
            {"name": "txc", "n_quick": 300, "n_thorough": 4000, "oracle": False,
             "rule": "the sender scripts of C16 (real Sender against a scripted receiver; messages cut by the peer's max-message-size and by the frame size); here the clauses for "
                     "scripts WITHOUT cancellation: the transfers of one message form one delivery (one delivery-id, one tag, finished, nothing interleaved) and every delivery "
                     "takes exactly one credit however many transfers carry it"},
            {"name": "c08w", "n_quick": 4, "n_thorough": 60, "oracle": False,
             "rule": "multi-threaded stress (4 workers) of the real consumer/producer pair: one consume(1) racing one grant per iteration "
                     "for n seconds; a lost wake-up is a consume still pending 1 s after the grant with credit >= 1"},
        ],
        "rule": "c08: a case is one flow/send history run through the real LinkFlowState (facade) and the extracted Coq model; "
                "non-trivial = at least one send went out and one had to wait; c08w counts its iterations in input_distribution",
        "trusted": ["model scope: LinkFlowState<SenderMarker>::on_incoming_flow, consume_link_credit, as_link_flow; "
                    "the wake-up theorem is about coq/Async/WakeUp.v where tokio::sync::Notify is modelled by its notify_waiters "
                    "generation counter (a Notified completes once the counter differs from its creation snapshot) - validated by the "
                    "stress run, not proved about tokio",
                    "Tie_WakeOrder: the check-vs-register statement order is re-extracted from link/state.rs and util/producer.rs every run"],
        "assumptions": ["link-credit in a flow < 2^32", "each model step of the wake-up protocol is atomic (credit under a lock, counter atomic)"],
        "partial": ["C08_wakeup is a safety statement (no reachable stuck state with credit) over all interleavings of the modelled steps; "
                    "the real multi-threaded scheduler is exercised only by the stress run"],
    },
    "C03": {
        "class_prefixes": ["c03-", "harness-crash"],
        "subs": [{"name": "msg", "n_quick": 250, "n_thorough": 5000, "model": "coq/Codec/Message.v",
             "rule": "the message codec at the level of sections: `enc` = generated messages (every subset of the optional sections, bodies of one amqp-value, "
                     "1..3 data or 1..3 amqp-sequence sections, or none) through Serializable / Deserializable<Message<Body<Value>>> against enc_message / "
                     "dec_message; `dec` = byte strings built from the sections: another order, a further section of some kind (the later one wins), more than "
                     "seven sections, no body, descriptors by name, a section with an unknown descriptor, a truncated tail (outside list-encoded sections), "
                     "trailing bytes, fixed short inputs"},
            {"name": "typed", "n_quick": 1200, "n_thorough": 6000, "oracle": False,
             "rule": "typed protocol items (9 performatives + Performative, 5 SASL frames, DeliveryState/Outcome with every variant, Error, "
                     "Source, Target, TargetArchetype, Coordinator, message sections, Message<Body<Value>> with all 64 section subsets x 4 body kinds): "
                     "random field presence and boundary values; on the implementation: from_slice(to_vec(x)) == x and re-encodes equally, "
                     "serialized_size == length, to_value/from_value and to_vec(to_value(x)) == to_vec(x), from_reader (Cursor and 1/2/3/7-byte reads) "
                     "== from_slice; every call under catch_unwind"},
                 {"name": "codec", "n_quick": 1500, "n_thorough": 40000, "model": "coq/Codec/{Enc,Dec}.v",
             "rule": "enc cases: random Values of all 25 variants (depth <= 3, quick; <= 5 thorough), boundary lengths 0/1/253..257, "
                     "non-ASCII strings, maps with keys of every type, arrays of every element kind (10% of the known-finding kinds); "
                     "dec cases: the encodings, 2 structure-aware corruptions of each, a catalogue of hostile inputs (former panics, "
                     "huge lengths, odd counts, nesting), all 1-byte strings (all 2-byte strings in thorough), random short strings; "
                     "plus nested inputs decoded in a child process for the stack-depth probe"},
            {"name": "comp", "n_quick": 700, "n_thorough": 8000, "model": "coq/Codec/Composite.v, coq/Codec/CompositeSpec.v",
             "rule": "28 list-encoded composite types (9 performatives, Error, Source, Target, Coordinator, Header, Properties, 4 SASL frame bodies, "
                     "Received / Accepted / Rejected / Released / Modified, Declare / Discharge / Declared / TransactionalState): the field vector of a "
                     "generated item is read through impls the translator writes from the struct definitions of this run; `canon`: to_vec(x) against "
                     "the model's serializer (pending nulls, trailing-field elision) and the decoded field vector; `var`: three spec-valid layouts per "
                     "item (absent fields as null / written out / an empty array, trailing absent fields kept or dropped, list8/list32, descriptor by "
                     "code in two widths or by name in two) and five broken ones (list cut short, null in a random position, count beyond the bytes, "
                     "one element too many, foreign descriptor) through from_slice::<T> and dec_composite; the schema the model runs is the "
                     "specification table's and must equal what the case line reports of the code (kinds, Default::default() values)"}],
        "rule": "a case is `enc <value>` (to_vec vs model enc, then from_slice(to_vec(v)) == v on the implementation) or `dec <bytes>` "
                "(from_slice vs model dec); non-trivial = an enc case outside the known-finding class that round-trips; distinct by case text",
        "trusted": ["model scope: impl Serialize/Deserialize for Value, ser.rs Serializer (all serialize_* used by Value, write_list/map/array), "
                    "de.rs Deserializer (parse_*, deserialize_seq/map/enum/identifier, List/Array/Map/DescribedAccess), value/de.rs visitor; "
                    "typed composites: the derive macros' list encoding and DescribedAccess are modelled in coq/Codec/Composite.v at the level of field "
                    "vectors (each field decoded by the value decoder: the typed field decoders agree with it on type-correct input, which is what the comp "
                    "cases exercise); enums dispatching on descriptors, map-encoded and basic-encoded types are checked by the typed sub-harness only",
                    "floats, chars, signed integers and timestamps are modelled as bit patterns"],
        "assumptions": ["wf: AMQP type system + decoder count cap; arrays of null/list/map/array/described elements excluded (known finding)"],
        "partial": ["typed layer: the theorems cover the list-encoded composite types, the Performative / DeliveryState enums (dispatch on the descriptor) and whole "
                    "messages at the level of sections and field vectors; the typed decoding of a single field (a ulong where the struct says uint, a nested composite "
                    "cut short) and map-encoded composites are exercised on the implementation (sub-harness typed) only"],
    },
    "C04": {
        "class_prefixes": ["c04-", "harness-crash"],
        "subs": [
            {"name": "fdec", "n_quick": 400, "n_thorough": 6000, "model": "coq/Frame/AmqpFrame.v, coq/Codec/Composite.v",
             "rule": "the AMQP frame codec on the bytes after the size field: `enc` = a generated frame (9 performatives with random field presence and "
                     "boundary values, channels 0 / 65535 / random, transfer payloads of 0..300 bytes) written by the real Transport / FrameEncoder and read "
                     "back by the real FrameDecoder, against enc_frame and dec_frame; `dec` = the same frame under other headers (doff 0,1,3,4,255; type "
                     "1,2,255), cut short anywhere outside a nested composite and inside the header, the descriptor by name (sym8, sym32) or as a long "
                     "ulong, unknown and foreign descriptors, trailing bytes after a performative without payload, 19 fixed short frames, random bytes"},{"name": "typed", "n_quick": 1200, "n_thorough": 6000, "oracle": False,
             "rule": "typed protocol items (9 performatives + Performative, 5 SASL frames, DeliveryState/Outcome with every variant, Error, "
                     "Source, Target, TargetArchetype, Coordinator, message sections, Message<Body<Value>> with all 64 section subsets x 4 body kinds): "
                     "random field presence and boundary values; on the implementation: from_slice(to_vec(x)) == x and re-encodes equally, "
                     "serialized_size == length, to_value/from_value and to_vec(to_value(x)) == to_vec(x), from_reader (Cursor and 1/2/3/7-byte reads) "
                     "== from_slice; every call under catch_unwind"},
                 {"name": "codec", "n_quick": 1500, "n_thorough": 40000, "model": "coq/Codec/{Enc,Dec}.v",
             "rule": "enc cases: random Values of all 25 variants (depth <= 3, quick; <= 5 thorough), boundary lengths 0/1/253..257, "
                     "non-ASCII strings, maps with keys of every type, arrays of every element kind (10% of the known-finding kinds); "
                     "dec cases: the encodings, 2 structure-aware corruptions of each, a catalogue of hostile inputs (former panics, "
                     "huge lengths, odd counts, nesting), all 1-byte strings (all 2-byte strings in thorough), random short strings; "
                     "plus nested inputs decoded in a child process for the stack-depth probe"}],
        "rule": "dec cases as in C03; every decode is wrapped in catch_unwind with a counting global allocator (peak live bytes); "
                "nested valid inputs (10..7000 levels; ..100000 thorough) are decoded in a child process so that a stack overflow is observed; "
                "non-trivial as in C03",
        "trusted": ["the model covers Value through the slice reader; Performative / SASL frame / Message / LazyValue and the io reader are "
                    "exercised on the implementation only (typed sub-harness, C20)"],
        "assumptions": [],
        "partial": ["C04_terminates bounds the recursion depth and each loop by its count; a step-count bound linear in the input is not proved",
                    "re-decode stability (the decoder's image is round-trippable) is checked on the implementation only"],
    },
    "C20": {
        "class_prefixes": ["c20-", "harness-crash"],
        "subs": [{"name": "comp", "n_quick": 700, "n_thorough": 8000, "model": "coq/Codec/Composite.v, coq/Codec/Size.v",
             "rule": "the composite cases of C03 (28 list-encoded types, field vectors read through generated accessors): here the `canon` lines - "
                     "serialized_size(x) against size_composite (SizeSerializer model driven by the derived serialize) and against the length of to_vec(x)"},
                 {"name": "typed", "n_quick": 1200, "n_thorough": 6000, "oracle": False,
             "rule": "typed protocol items (9 performatives + Performative, 5 SASL frames, DeliveryState/Outcome with every variant, Error, "
                     "Source, Target, TargetArchetype, Coordinator, message sections, Message<Body<Value>> with all 64 section subsets x 4 body kinds): "
                     "random field presence and boundary values; on the implementation: from_slice(to_vec(x)) == x and re-encodes equally, "
                     "serialized_size == length, to_value/from_value and to_vec(to_value(x)) == to_vec(x), from_reader (Cursor and 1/2/3/7-byte reads) "
                     "== from_slice; every call under catch_unwind"},
                 {"name": "codec", "n_quick": 1500, "n_thorough": 40000, "model": "coq/Codec/{Enc,Dec}.v",
             "rule": "enc cases: random Values of all 25 variants (depth <= 3, quick; <= 5 thorough), boundary lengths 0/1/253..257, "
                     "non-ASCII strings, maps with keys of every type, arrays of every element kind (10% of the known-finding kinds); "
                     "dec cases: the encodings, 2 structure-aware corruptions of each, a catalogue of hostile inputs (former panics, "
                     "huge lengths, odd counts, nesting), all 1-byte strings (all 2-byte strings in thorough), random short strings; "
                     "plus nested inputs decoded in a child process for the stack-depth probe"}],
        "rule": "enc cases as in C03 with serialized_size compared to to_vec().len(); non-trivial as in C03",
        "trusted": ["model scope: size_ser.rs SizeSerializer as driven by Value; io-reader / value-tree agreement is exercised on the implementation only"],
        "assumptions": [],
        "partial": ["slice-vs-io reader agreement and to_value/from_value are checked by the typed sub-harness on the implementation, not proved"],
    },
    "C06": {
        "class_prefixes": ["c06-", "harness-crash", "c07-fifo"],
        "subs": [
            {"name": "ovs", "n_quick": 40, "n_thorough": 600, "oracle": False,
             "rule": "the limit for what an endpoint reads is the max-frame-size it announced itself, whatever the peer announced: real client and real listener "
                     "with local limit L in {512, 1024, 4096, ..} against a scripted peer announcing R in {512, L, 4L, 2^24, 2^32-1}; the peer sends a close frame "
                     "padded to exactly S octets (L-1, L, L+1, 2L, 4L, random) or only the 8-octet header of a frame claiming 4L or 8 MiB: within the limit the "
                     "close is read; beyond it the frame is not acted on and a header alone is refused at once instead of being waited for"},
            {"name": "fdec", "n_quick": 400, "n_thorough": 6000, "model": "coq/Frame/AmqpFrame.v, coq/Codec/Composite.v",
             "rule": "the AMQP frame codec on the bytes after the size field: `enc` = a generated frame (9 performatives with random field presence and "
                     "boundary values, channels 0 / 65535 / random, transfer payloads of 0..300 bytes) written by the real Transport / FrameEncoder and read "
                     "back by the real FrameDecoder, against enc_frame and dec_frame; `dec` = the same frame under other headers (doff 0,1,3,4,255; type "
                     "1,2,255), cut short anywhere outside a nested composite and inside the header, the descriptor by name (sym8, sym32) or as a long "
                     "ulong, unknown and foreign descriptors, trailing bytes after a performative without payload, 19 fixed short frames, random bytes"},
            {"name": "frame", "n_quick": 300, "n_thorough": 6000, "model": "coq/Frame/Transfer.v, coq/Lib/LengthDelimited.v",
             "rule": "xfer: random Transfer performatives (tags 0..32 bytes, every optional field) with payload lengths within +-40 of each "
                     "multiple of the frame body size and random up to 3 frames, M in {512,513,600,1024} (4096, 65536 in thorough), sent "
                     "through the real Transport; other: Open with 0..80 capabilities / Begin / Flow / Close incl. oversize; ldf: 1-4 frames "
                     "(valid, empty, too big, size<4, truncated) cut into 1-byte / small / large reads fed to the configured decoder; "
                     "rt: transfers sent through one Transport and read back through another with random cuts"},
            {"name": "saslp", "n_quick": 60, "n_thorough": 400, "oracle": False,
             "rule": "a pipelining client against the real listener (PLAIN): SASL header, init, AMQP header and open as ONE byte stream, written in pieces cut at every single "
                     "offset, byte by byte, and at 2..5 random offsets; the result (accept ok, the frames the listener writes) must be the same as for the uncut stream: covers the "
                     "protocol-header codec and the hand-over from the SASL codec to the AMQP codec"},
            {"name": "c07", "n_quick": 1500, "n_thorough": 30000, "model": "coq/Session/Window.v",
             "rule": "the session histories of C07: transfers held back by a closed window leave in the order in which they were submitted (continuation frames of one delivery "
                     "stay in wire order), whatever the amount by which the window re-opens"},
        ],
        "rule": "a case is one frame send or one scripted read sequence run on the real Transport and on the extracted Coq model "
                "(bytes compared); non-trivial = a transfer of >= 2 frames, any non-transfer frame, a multi-read sequence; distinct by case text",
        "trusted": ["model scope: frames/amqp.rs write_header / FrameEncoder::{new, encode_transfer} / Encoder::encode, transport/mod.rs "
                    "start_send + set_encoder_max_frame_size + length_delimited_{encoder,decoder} config; tokio-util's LengthDelimitedCodec "
                    "decoder is modelled (coq/Lib/LengthDelimited.v) and validated by the ldf cases, not proved; the performative "
                    "encodings are parameters of the theorems (they come from the codec, C03)"],
        "assumptions": ["the transfer performative fits one frame body (first <= M-8, middle < M-8): holds for delivery-tags <= 32 bytes without a large state"],
        "partial": ["the frame codec model (Frame/AmqpFrame.v) reads a performative at the level of field vectors (C03/C05 typed-layer theorems); the typed decoding of a single "
                    "field and of nested composites inside a performative is exercised by the rt / fdec cases on the implementation, not modelled"],
    },
    "C02": {
        "class_prefixes": ["c02-", "harness-crash", "c16-send-never-settled"],
        "subs": [
            {"name": "hreuse", "n_quick": 60, "n_thorough": 1500, "oracle": False,
             "rule": "the multi-link scripts of C11 (three sending links on one real session; the scripted peer numbers its link ends the other way round than "
                     "the client and rejects the deliveries of link b while accepting the others): every send resolves, and with the outcome the peer gave "
                     "for that very delivery (classes c02-foreign-outcome, c02-outcome-missing)"},
            {"name": "rx", "n_quick": 1000, "n_thorough": 30000, "model": "coq/Link/Receiver.v",
             "rule": "receiver side: the rx scripts of C09/C10 (rcv-settle-mode second: unsettled until the sender's settling disposition; dispositions settled or not according to the mode of each delivery)"},
            {"name": "c02", "n_quick": 2500, "n_thorough": 100000, "model": "coq/Session/Disposition.v",
             "rule": "1-3 sender links (rcv-settle-mode first/second at random) on one session; histories of unsettled sends and incoming "
                     "dispositions (single ids, ranges over several deliveries and links, settled/unsettled, every state incl. the "
                     "non-terminal received and unset, duplicates, out-of-range, wrong role), initial delivery-ids near 0 and 2^32"},
            {"name": "txc", "n_quick": 300, "n_thorough": 4000, "oracle": False,
             "rule": "the sender scripts of C16; here: messages sent with settled=true on links in snd-settle-mode mixed / unsettled / settled complete as accepted without "
                     "waiting for a disposition and go out settled"},
        ],
        "rule": "a case is one send/disposition history run through the real Session + LinkRelay (facade) and the extracted Coq model "
                "(echo frames, resolved outcomes, session delivery map and unsettled maps after every event); non-trivial = at least one "
                "send resolved; distinct by case text",
        "trusted": ["model scope: Session::on_incoming_disposition (both branches, consecutive_chunk_indices, echo construction), "
                    "LinkRelay::on_incoming_disposition (sender and receiver side), delivery-id stamping; the sender link's "
                    "send_payload/DeliveryFut and the receiver's dispose* are exercised by the engine-level checks",
                    "the first..=last loop is modelled by the ascending list of ids present in the map (extensionally equal)"],
        "assumptions": ["delivery tags are distinct among the unsettled deliveries of one link (the sender derives them from delivery-count)"],
        "partial": ["pre-settled sends (completed by the sender link without the session) and the receiver-side dispose paths are not in this model"],
    },
    "C11": {
        "class_prefixes": ["c11-", "harness-crash"],
        "subs": [
            {"name": "hreuse", "n_quick": 60, "n_thorough": 1500, "oracle": False,
             "rule": "three sending links on one real client session against a scripted peer: attach / peer detach (closing or not) / detach keeping the "
                     "DetachedSender / close / drop of the link or of the detached endpoint / send, 8 fixed scripts (a handle released by an answered detach "
                     "and taken by the next link while the first endpoint is still around) plus random ones; on the frames the client writes: a detach names "
                     "only a handle the op's own link holds, an attach never takes a handle another link holds, a send on a link nobody detached succeeds"},
            {"name": "c11", "n_quick": 3000, "n_thorough": 100000, "model": "coq/Session/Ids.v, coq/Lib/Slab.v",
             "rule": "lnk: histories of allocate (6 names, duplicates likely) / peer attach (sparse, large and reused input handles) / "
                     "peer detach / local detach / route-a-transfer on one real Session; chn: pairs of local/remote channel-max from "
                     "{0,1,2,3,4,5,65535} and histories of allocate-session / end+deallocate / peer begin (unknown, reused, unset "
                     "remote-channel) / peer end / route-a-frame on one real Connection"},
            {"name": "c07", "n_quick": 1500, "n_thorough": 50000, "model": "coq/Session/Window.v",
             "rule": "delivery-id stamping: the C07 histories (the trace includes each frame's delivery-id and tag)"},
            {"name": "txc", "n_quick": 300, "n_thorough": 4000, "oracle": False,
             "rule": "the sender scripts of C16 (real Sender against a scripted receiver; messages cut by the peer's max-message-size and by the frame size); here the clauses for "
                     "scripts WITHOUT cancellation: the transfers of one message form one delivery (one delivery-id, one tag, finished, nothing interleaved) and every delivery "
                     "takes exactly one credit however many transfers carry it"},
            {"name": "chanre", "n_quick": 0, "n_thorough": 0, "oracle": False,
             "rule": "50 fixed scripts against the real client: a second session is begun on the connection while the first is ending in each way a session can end (end, "
                     "end_with_error, drop of the handle, the peer's end with and without error, with and without an attached link), before / after the peer's answer: a begin "
                     "may be written on a channel only when the session that held it has written its end and received the peer's"},
        ],
        "rule": "a case is one operation history run on the real Session / Connection (facade) and on the extracted Coq model, every "
                "result compared (handle / channel numbers, error kinds, which link or session received the routed frame); "
                "non-trivial = at least three successful operations; distinct by case text",
        "trusted": ["model scope: Session::{allocate_link, allocate_incoming_link, deallocate_link, on_incoming_attach, on_incoming_detach, "
                    "on_outgoing_detach}, routing by input handle; Connection::{allocate_session, deallocate_session, "
                    "on_incoming_begin(_inner), on_incoming_end, session_tx_by_incoming_channel}; delivery-id stamping in "
                    "on_outgoing_transfer_inner; link-level split of sender_link.rs (model + theorem; exercised by the engine checks)",
                    "slab::Slab is modelled by its occupied entries + LIFO free list (coq/Lib/Slab.v), validated by the handle and "
                    "channel numbers observed in the correspondence run"],
        "assumptions": ["the generator keeps histories protocol-conformant where the property needs it: the peer's detach/end precedes the "
                        "reuse of a handle/channel (a stale relay after reuse is a C13/C15 matter)"],
        "partial": ["the link-level split is proved on its model; its correspondence with sender_link.rs is checked by the engine-level harness"],
    },
    "C12": {
        "class_prefixes": ["c12-", "harness-crash", "c15-wedged", "c15-silent-failure"],
        "subs": [
            {"name": "lill", "n_quick": 0, "n_thorough": 0, "oracle": False,
             "rule": "the listener side of the illegal-frame clause: a real listener opened by a scripted peer, then one frame that no state of a listener "
                     "connection without sessions allows (end / flow / transfer / disposition / detach on a channel without session, a begin naming a "
                     "remote channel, a second open), followed by nothing / a close / EOF: the listener answers with a close that carries an error, and "
                     "writes nothing after its close"},
            {"name": "c12", "n_quick": 1200, "n_thorough": 20000, "model": "coq/Conn/Lifecycle.v",
             "rule": "scripts of 1..6 (thorough 1..9) events after a mostly sensible prefix (open;ph;po 60%, others 40%) over local "
                     "open/close/close_with_error/drop and peer header/garbage header/open/close/close+error/begin (no, known, unknown "
                     "remote-channel)/end/flow on an unmapped channel/empty frame/EOF; corpus of former disagreements first; thorough adds "
                     "all 2000 scripts of length 3 over a 10-letter alphabet from scratch and after open;ph;po"},
            {"name": "c17", "n_quick": 600, "n_thorough": 10000, "model": "coq/Conn/Timers.v",
             "rule": "the timed scripts of C17 (peer idle-time-out set: heartbeats must stop once a close, with or without error, is written)"},
            {"name": "lifeq", "n_quick": 0, "n_thorough": 0, "oracle": False,
             "rule": "72 fixed cases: a sender writes 1..13 pre-settled messages of 10/100/700 bytes into a pipe of 64..1024 bytes that the peer does not read (frames "
                     "queue behind the blocked transport), the peer then writes a close and only then reads: the queued frames must be flushed before the answering "
                     "close, nothing may follow it and the handle reports the peer's close"},
            {"name": "hostile", "n_quick": 300, "n_thorough": 3000, "oracle": False,
             "rule": "the hostile-peer catalogue of C15 (client and listener side, every stimulus in every state it applies to); here: a frame that is illegal in the current state - "
                     "a second begin on a mapped channel, an attach on a handle in use, frames for unmapped channels ... - must not be acted on silently: afterwards the "
                     "connection either reports the error or still works (classes c15-wedged, c15-silent-failure)"},
        ],
        "rule": "a case is one script run against the real client ConnectionEngine over tokio::io::duplex (paused clock, one event per "
                "barrier) and through the extracted Coq step function; compared per step: frames written (kind, close error condition), "
                "EOF, results of open()/close()/on_close(); non-trivial = open succeeded and the connection was closed or stopped; "
                "distinct by script text",
        "trusted": ["model scope: connection/builder.rs header exchange (no SASL, no TLS), ConnectionEngine::{open, open_inner, event_loop, "
                    "on_incoming, on_control, close_connection, wait_for_remote_close, on_error}, Connection::{send_open, send_close, "
                    "on_incoming_open, on_incoming_close}, ConnectionHandle::{close, close_with_error, drop}; heartbeats and idle "
                    "time-outs are C17, sessions C13, the acceptor side C01/C19",
                    "scripted peer: one stimulus per quiescence barrier (sleep 1 ms on the paused clock = all tasks idle); the schedules "
                    "explored are therefore the interleavings at event granularity, not inside a poll"],
        "assumptions": ["the peer writes whole frames (partial frames/garbage are C15)", "no session is begun (C13 covers sessions)"],
        "partial": ["interleavings finer than one event per barrier (two stimuli racing inside one select!) are not explored by the "
                    "correspondence; the model's theorems quantify over event lists"],
    },
    "C17": {
        "class_prefixes": ["c17-", "harness-crash"],
        "subs": [
            {"name": "chmax", "n_quick": 0, "n_thorough": 0, "oracle": False,
             "rule": "the channel-max clause at its far end: on a real Connection (facade) that agreed on channel-max M in {65535, 300, 255, 256, 0, 1, ..} "
                     "sessions are allocated until one is refused (65536 live sessions for M = 65535): every channel handed out is new and within 0..=M, "
                     "exactly M+1 fit, the next is refused, and after one in the middle is given back exactly one more fits"},
            {"name": "c17", "n_quick": 1500, "n_thorough": 30000, "model": "coq/Conn/Timers.v",
             "rule": "local idle-time-out from {unset, 0, 34, 50, 98, 202, 1002} ms, peer idle-time-out from {unset, 0, 16, 24, 40, 96, 200, 1000} ms; "
                     "0-2 delays, the peer's open, then 1..8 (thorough 1..14) of wait / peer empty frame / close / close_with_error / peer close, "
                     "each followed by a delay drawn from fixed values and from just below / at / just above both time-outs; all times are "
                     "arranged (residues mod 8) so that no two timers or stimuli share a millisecond and every trace is deterministic"},
            {"name": "c11", "n_quick": 2000, "n_thorough": 100000, "model": "coq/Session/Ids.v",
             "rule": "chn cases: pairs of local/remote channel-max from {0,1,2,3,4,5,65535} and histories of allocate-session / end+deallocate / "
                     "peer begin / peer end / route on one real Connection (the lnk cases of the same run belong to C11)"},
        ],
        "rule": "c17: a case is one timed script run against the real client connection under tokio's paused clock (every frame the endpoint "
                "writes is stamped with the virtual time of the write by a reader task) and through the extracted Coq model; compared: "
                "advertised idle-time-out, every frame with its time, EOF time, results of open/close/on_close; non-trivial = at least one "
                "heartbeat or an idle time-out occurred. c11: see C11.",
        "trusted": ["model scope: HeartBeat (tokio interval: first tick at once, then every period), ConnectionEngine::{open_inner heartbeat set-up, "
                    "on_heartbeat}, Transport poll_next deadline handling and IdleTimeout::reset, builder halving of the advertised value, "
                    "Connection::allocate_session bound; tokio's timer wheel itself is trusted (paused clock, 1 ms resolution)"],
        "assumptions": ["no two timers/stimuli in the same millisecond (the order inside tokio::select! would be random)",
                        "no session traffic: a connection engine blocked on a full session channel sends no heartbeats - not modelled"],
        "partial": ["heartbeats are shown for a connection without session traffic; back-pressure from a session that does not drain its "
                    "incoming channel can delay them in the real engine (the engine awaits the channel inside select!)"],
    },
    "C09": {
        "class_prefixes": ["c09-", "harness-crash"],
        "subs": [
            {"name": "rres", "n_quick": 20, "n_thorough": 400, "oracle": False,
             "rule": "a receiving link (manual credit) that receives 0..4 deliveries, is detached and resumed: the scripted sender's attach of the resumed link names "
                     "an initial-delivery-count (the old one, the old one plus the deliveries made, or another value, also next to 2^32): the first flow after the "
                     "resume reports exactly that delivery-count, and every delivery within the limit of that flow is delivered"},
            {"name": "rx", "n_quick": 1500, "n_thorough": 40000, "model": "coq/Link/Receiver.v",
             "rule": "receiving link: credit mode from {manual, auto:1,2,3,5, auto:4..12}, rcv-settle-mode first/second, initial delivery-count near 0, 2^31, 2^32; "
                     "3..16 (thorough 3..30) of: a delivery (message generated from its id, cut at random byte offsets into 1..7 frames, empty frames, optional fields "
                     "omitted/repeated on continuations, settled yes/no/unset, per-transfer rcv-settle-mode override; with faults: abort at a random frame, a contradictory "
                     "continuation), recv, set_credit, drain, a peer flow (delivery-count truthful / advanced / unset, echo), accept oldest / newest / all, the sender's settling disposition"},
        ],
        "rule": "a case is one script run against the real Receiver (client side, scripted sender peer over an in-memory duplex, paused clock, one event per "
                "barrier) and through the extracted Coq model; compared per step: link flows (delivery-count, credit, drain, echo), dispositions, results of recv "
                "(delivery-id, tag, format, message bytes re-encoded) and at the end credit, delivery-count, drain flag and the unsettled map; non-trivial = at "
                "least two deliveries returned; the direct oracle checks credit overrun and delivery-count ahead of the sender",
        "trusted": ["model scope: see the header of coq/Link/Receiver.v; the session's incoming window and the connection are not part of it (C07/C12)",
                    "scripted peer and barrier as for C12; hook receiver_unsettled_and_flow reads the final state"],
        "assumptions": ["one stimulus per quiescence barrier", "the application does not dispose while a recv() is pending (the API takes &mut self)"],
        "partial": ["accounting clause: refuted for flows that overtake queued transfers (known finding c09-dc-double-count, Coq witness); "
                    "the enforcement and replenishment clauses are proved"],
    },
    "C10": {
        "class_prefixes": ["c10-", "harness-crash"],
        "subs": [
            {"name": "rx", "n_quick": 1500, "n_thorough": 40000, "model": "coq/Link/Receiver.v",
             "rule": "receiving link: credit mode from {manual, auto:1,2,3,5, auto:4..12}, rcv-settle-mode first/second, initial delivery-count near 0, 2^31, 2^32; "
                     "3..16 (thorough 3..30) of: a delivery (message generated from its id, cut at random byte offsets into 1..7 frames, empty frames, optional fields "
                     "omitted/repeated on continuations, settled yes/no/unset, per-transfer rcv-settle-mode override; with faults: abort at a random frame, a contradictory "
                     "continuation), recv, set_credit, drain, a peer flow (delivery-count truthful / advanced / unset, echo), accept oldest / newest / all, the sender's settling disposition"},
        ],
        "rule": "as C09; the direct oracle checks that every returned message is byte-for-byte the message generated for that delivery-id and that no delivery is returned twice",
        "trusted": ["model scope: see the header of coq/Link/Receiver.v; messages are opaque byte strings in the model, decoding (C03/C05) is not part of it: "
                    "the harness re-encodes what recv() returned and compares bytes",
                    "interleaving with other links: each link has its own state in the model and in the code (routing by handle is C11)"],
        "assumptions": ["one stimulus per quiescence barrier"],
        "partial": ["resumed deliveries (transfer.resume) and delivery state carried on transfers are not modelled"],
    },
    "C13": {
        "class_prefixes": ["c13-", "harness-crash"],
        "subs": [
            {"name": "lifeq", "n_quick": 0, "n_thorough": 0, "oracle": False,
             "rule": "the session variant of the queued-frames cases: a sender in snd-settle-mode settled sends 1..30 pre-settled messages and the application "
                     "ends the session (end / end_with_error) without giving the engines a turn in between: every transfer the link had handed over is written "
                     "before the end frame, nothing after it"},
            {"name": "lifem", "n_quick": 400, "n_thorough": 20000, "model": "coq/Session/SessLife.v",
             "rule": "session-only scripts over begin / peer begin / end / end_with_error / drop / cancelled end / peer end with and without error "
                     "(protocol-abiding peer): every legal script of length <= 5 (thorough <= 7) after begin, plus random ones of length 3..12"},
            {"name": "life", "n_quick": 2500, "n_thorough": 60000, "oracle": False,
             "rule": "session + one sender link: begin, attach, send, detach, close, drop and cancellation of each call, end, end_with_error against a "
                     "protocol-abiding scripted peer (begin, attach, flow, disposition, detach closed/not closed/with error, end with/without error); "
                     "the generator tracks which handle is free so that few events are no-ops; direct oracle only"},
            {"name": "lifel", "n_quick": 600, "n_thorough": 20000, "model": "coq/Link/LinkLife.v",
             "rule": "one sender link on an open session: attach, send (with / without credit), detach, close, drop against a peer's attach, flow, accepting "
                     "disposition, detach not closed / closed / closed with error; every legal script up to length 5 (thorough 7) plus random ones of length 3..12; "
                     "the generator simulates what is in flight and leaves out the three combinations whose outcome depends on the order in which tokio::select! "
                     "polls the link's two channels (recorded as known findings c13-second-detach / c13-transfer-after-remote-detach)"},
            {"name": "lifer", "n_quick": 600, "n_thorough": 20000, "model": "coq/Link/RecvLife.v",
             "rule": "one receiver link (credit mode Auto(2), auto-accept) on an open session: attach, recv, detach, close, drop, cancellation of the pending call "
                     "against a peer's attach (also answering a re-attach), transfer (one complete unsettled delivery, within the credit), detach not closed / closed / "
                     "closed with error; every legal script of up to 5 events (thorough 6), then up to 6 (thorough 8) with only those local events that find the handle "
                     "in the state they need, plus random ones of length 3..12; the generator simulates the handle, the link's unseen queue and the peer's credit and "
                     "leaves out the two combinations whose outcome depends on the order in which the session engine's select! polls the link's two channels "
                     "(detach() meeting an unseen closing peer detach, close() meeting an unseen non-closing one)"},
            {"name": "lifex", "n_quick": 2500, "n_thorough": 60000, "oracle": False,
             "rule": "session + one receiver link: as `life` with attr / recv / peer transfer in place of att / send / peer flow+disposition, including the combinations "
                     "left out of lifer; direct oracle only"},
        ],
        "rule": "lifem: a case is one script run against the real session engine (client, scripted peer, paused clock, one event per barrier) and through the "
                "extracted Coq step function; compared per step: begin/end frames (with error or not), results of begin()/end()/on_end(); lifel: the same for one "
                "sender link (attach/transfer/detach frames with the closed flag, results of attach/send/detach/close); lifer: the same for one receiver link (attach/flow/"
                "disposition/detach frames, a session end written because of the link, results of attach/recv/detach/close); lifex: as life for a receiver link, the link "
                "clauses reported under c13-r-* (in addition: a peer detach that arrived before ours is answered by the first link operation that runs afterwards - "
                "c13-r-detach-unanswered, c13-r-detach-behind-transfer when that operation is a recv() returning a queued delivery; no end written unless one side ended "
                "the session - c13-r-session-torn-down); life: the trace "
                "(all frames as tokens, all API results) is checked by the direct oracle: one begin, at most one end, nothing after the end; at most one detach "
                "per attach and nothing for the handle afterwards; a peer end answered; a peer detach answered in kind; the peer's error reported; the "
                "connection never torn down; non-trivial = attach succeeded and a detach/close/end completed",
        "trusted": ["model scope: see the headers of coq/Session/SessLife.v (session lifecycle) and coq/Link/LinkLife.v (sender link: Sender::{attach, send, detach, close, drop}, "
                    "SenderLink detach handling, shared_inner::{detach_with_error, close_with_error, reattach_and_then_close}) and coq/Link/RecvLife.v (receiver link: "
                    "Receiver::{attach, recv, detach, close, drop}, recv_inner's Detach arm, the same shared_inner functions, the session's handling of a transfer for a dropped handle)", "scripted peer and barrier as for C12"],
        "assumptions": ["the peer stays within the protocol (violations are C15)", "one stimulus per quiescence barrier"],
        "partial": ["the link models cover one sending link (LinkLife.v) and one receiving link (RecvLife.v, credit mode Auto(2), auto-accept, single-frame deliveries) on a "
                    "session that stays mapped; the combination with session end is decided by the direct oracle over generated scripts only (life, lifex)",
                    "the link clauses 'at most one detach per attach' and 'answer in kind' are false of the code in named corner cases: proved with the exact exception, "
                    "refutation witnesses in Props/C13.v, recorded as known findings"],
    },
    "C14": {
        "class_prefixes": ["c14-", "harness-crash", "c12-panic"],
        "subs": [
            {"name": "c12", "n_quick": 400, "n_thorough": 8000, "model": "coq/Conn/Lifecycle.v",
             "rule": "the connection scripts of C12 (local open / close / close_with_error / drop against peer header, open, close with and without error, EOF, "
                     "illegal frames); here: teardown calls repeated after the connection has failed (a second close() after a close that reported the "
                     "peer's error or a transport error) return an error and never panic (class c12-panic)"},
            {"name": "cutm", "n_quick": 200, "n_thorough": 2000, "model": "coq/Conn/Failure.v",
             "rule": "the cut cases whose trigger is inside the model's alphabet (pipes > 256 bytes, injection positions that are not themselves protocol errors), abstracted to the "
                     "model's events: the application calls of the four tasks in the order in which they were issued, the peer's frames as the client read them, the failure "
                     "(transport eof/reset, peer close / end / detach of either link, closing or not, with or without error) and the propagation step; compared: the abstract result "
                     "of every call (ok, error with scope link/session/connection and whether it carries the peer's error, or PENDING)"},
            {"name": "cut", "n_quick": 200, "n_thorough": 500, "oracle": False,
             "rule": "client connection + session + sender + receiver driven by four application tasks (open, begin, close / attach, end / send, send_batchable + its outcome, a "
                     "two-frame send, detach / recv, accept, a two-frame delivery, close) against a reactive scripted peer (late=1: the second delivery is first only acknowledged as "
                     "received, its outcome comes after the third); the transport is cut at EVERY byte offset of the reference "
                     "conversation in both directions (EOF; thorough: also reset and stall-then-EOF, pipes of 64 and 256 bytes), and a close / end / detach of either link, closing or "
                     "not, with and without error, is injected before and after every one of the peer's 15 frames, answered or not; every call is bounded by 600 s of virtual time; "
                     "direct oracle: no call pending, no panic, data-path calls fail, errors name the level that stopped and carry the peer's condition, engine tasks terminate"},
        ],
        "rule": "cutm: a case is the abstract scenario of one cut case, run through the extracted Coq step function; compared with the abstracted results of the real run. cut: direct "
                "oracle on the concrete trace; non-trivial = at least one call was in progress at the failure or issued after it.",
        "trusted": ["model scope: see the header of coq/Conn/Failure.v: how a stop propagates connection -> session -> links (stop-reason cells, channel closure, outcome oneshots) and "
                    "what every public call returns in every state; wire output, ids, sizes and time are abstracted away",
                    "the abstraction of concrete traces in harness/src/cutm.rs (two input-side rules documented there: after a reset only the frames the client read count; "
                    "the peer's answer to a receiver attach that arrives in the same burst as a session-stopping failure is moved behind the failure)",
                    "scripted peer and barrier as for C12; the order in which the session's select! takes a ready link frame vs. a control message is the seeded one"],
        "assumptions": ["one connection, one session, one sender, one receiver", "virtual time: 'bounded' = 600 s after max(failure, issue)"],
        "partial": ["'within bounded time' is decided on the model as 'in the step of the failure or the propagation step', on the implementation by the 600 s bound",
                    "several clauses are false of the code in named situations: modelled faithfully, stated as exact exceptions in the theorems, recorded as known findings"],
    },
    "C16": {
        "class_prefixes": ["c16-", "harness-crash"],
        "subs": [
            {"name": "rx", "n_quick": 1500, "n_thorough": 40000, "model": "coq/Link/Receiver.v",
             "rule": "the receiving-link scripts of C09/C10 (recv and rcancel = drop of the pending recv() at any point between frames, re-issue later)"},
            {"name": "txcm", "n_quick": 400, "n_thorough": 6000, "model": "coq/Link/SendCancel.v",
             "rule": "sender against a scripted receiver, every send() dropped when it is still pending at its k-th poll (k = 1..8, or never): one call dropped at every k "
                     "between two complete ones x link->session capacity 1/2/default x max-message-size unset/100/200, plus random scripts of 3..9 (thorough 3..13) calls of "
                     "10..500 bytes with credit up front / late / as a window, pipes of 64..512 bytes and peers that stop reading for a while; the oracle searches the model's "
                     "drop points for an assignment that reproduces the transfers the peer saw (tags, pieces, more flags, message identity by content hash)"},
            {"name": "txc", "n_quick": 300, "n_thorough": 4000, "oracle": False,
             "rule": "send side as for txcm plus messages larger than the frame size, the select!-loop pattern (re-send after each cancellation) and rcv-settle-mode second "
                     "(the scripted receiver's outcome is unsettled and it counts on the sender's settlement, also for its credit window); recv side: recv() "
                     "dropped at its k-th poll (k cycled from a list) and re-issued until everything is returned, auto-accept on/off, credit auto/manual, bursts, "
                     "capacities 1/2/4/default for connection and session, 1/2/default for the session->link channel; direct oracle: nothing lost, duplicated, reordered, "
                     "partial or corrupted, no starvation, every outcome settled in mode second, link usable"},
        ],
        "rule": "rx: see C09. txcm: a case is one script run against the real Sender (client, scripted byte-level receiver, paused clock); compared: the sequence of "
                "transfers the peer saw against the model run with the drop points found by the oracle's search (no assignment = disagreement); non-trivial = a call was "
                "dropped and at least two deliveries completed. txc: direct oracle on the concrete trace.",
        "trusted": ["model scope: Link/Receiver.v (see C09/C10) and Link/SendCancel.v: sender_link.rs send_payload = get_delivery_tag_or_detached + "
                    "send_transfer_without_modifying_unsettled_map (+ the max-message-size split) at the granularity of await points",
                    "the drop-point search of the oracle driver (extraction/driver.ml, tag txcm: depth-first with prefix pruning) is part of the trusted base",
                    "CancelAfter (drop at the k-th pending poll) and the scripted peers of harness/src/txc.rs"],
        "assumptions": ["the peer is honest (grants credit, settles, may stop reading for a while)", "txcm: messages below the frame size (one frame per link-level transfer)"],
        "partial": ["recv() with auto-accept has an await point (the disposition) that Link/Receiver.v does not model: decided on the implementation by the txc oracle only (known finding)",
                    "'never partially' and 'not starved of credit' are false of the code in two named situations: proved with the exact exception, refutation witnesses in Props/C16.v, known findings"],
    },
    "C18": {
        "class_prefixes": ["c18-", "harness-crash"],
        "subs": [
            {"name": "frame", "n_quick": 300, "n_thorough": 6000, "model": "coq/Frame/SessionSplit.v, coq/Frame/Transfer.v",
             "rule": "ssplit / xfer cases of C06/C07 with transfers that carry a transactional state: every frame a transactional post is cut into "
                     "(by the session's split and by the frame encoder) carries the transaction in its state (class c18-split-drops-txn-state)"},
            {"name": "txnm", "n_quick": 500, "n_thorough": 5000, "model": "coq/Txn/Manager.v",
             "rule": "listener with a control-link acceptor and a receiving application on every accepted link, against a scripted byte-level controller: every script of length <= 3 "
                     "(thorough <= 4) over the model's alphabet after prefixes with 0, 1 and 2 declares and with two control links (control link attach / closing detach, data link "
                     "attach, declare, post under a live / finished / never-issued id or none, pre-settled or not, commit, rollback, discharge of unknown ids, discharge through the "
                     "other control link, drop of session / connection), plus random scripts of 8..30 (thorough 8..60) actions with 2-3 links and about 3 live transactions"},
            {"name": "ctlm", "n_quick": 400, "n_thorough": 6000, "model": "coq/Txn/Controller.v",
             "rule": "the library's Controller / Transaction (one shared control link, one sender) against a scripted coordinator: declare / post / commit / rollback / "
                     "discharge (the trait method: the handle stays) / drop on handles numbered by declare call, the coordinator answering every declare and "
                     "discharge with declared(id) / accepted / rejected(4 conditions) / released and every post with transactional accepted / rejected / plain "
                     "rejected; ids from a pool with repeats; every script declare ; a ; b over 16 tails x 4 declare answers, plus random scripts of 2..10 "
                     "(thorough 2..16) calls; compared per call: what goes on the wire (declare, post with its transaction id, discharge with id and fail "
                     "flag, the rollback written for a handle dropped undischarged), what the call returns, and the rollbacks at the end"},
            {"name": "txn", "n_quick": 1500, "n_thorough": 30000, "oracle": False,
             "rule": "txn-l: the listener scripts with the full alphabet (bursts of >100 posts, two-frame posts, non-closing control-link detach, receiver links, retirements); "
                     "txn-c: Controller / Transaction / OwnedTransaction (declare, post, commit, rollback, drop, accept/reject/release under a transaction) against a scripted "
                     "coordinator answering declared / accepted / rejected(cond) / transactional accepted / rejected / no answer + detach, id pool of 1..32 bytes; direct oracle: "
                     "atomicity, isolation, order, fresh ids, single discharge, refusals, right id and fail flag on the wire, outcome reported, no hang"},
        ],
        "rule": "txnm: a case is one script run against the real listener (paused clock, one action per barrier) and through the extracted Coq step function; compared per action: "
                "the listener's answers (attached, declared(k), accepted, rejected(cond), provisional(k), end(cond)) and the deliveries the application has received per link; "
                "non-trivial = a declare plus a delivering commit, a rejection or an unknown-id end. txn: direct oracle on the concrete trace.",
        "trusted": ["controller model scope: see the header of coq/Txn/Controller.v: transaction/controller.rs {declare_on_link, discharge_on_link} + transaction/mod.rs "
                    "{Transaction::declare, post, discharge, commit, rollback, Drop} at the granularity of whole calls; the coordinator's answers are inputs",
                    "model scope: see the header of coq/Txn/Manager.v: transaction/{session.rs, manager.rs, coordinator.rs} + acceptor/session.rs at the granularity of whole actions; "
                    "transaction ids abstracted to a counter (the code draws a random UUID and redraws against live ids: freshness holds up to UUID collision)",
                    "scripted controller / coordinator of harness/src/txn.rs"],
        "assumptions": ["at most 128 live transactions per control link and fewer than 100 posts per script in txnm (the full alphabet is in txn)", "one action per quiescence barrier"],
        "partial": ["the controller model covers transactions that share one Controller (Transaction); OwnedTransaction (a control link per transaction, detached after the "
                    "discharge), transactional retirements and acquisition, and a control link the coordinator detaches are decided by the direct oracle of the txn sub only",
                    "known findings: link credit used by rolled-back posts is never given back; a non-closing detach of the control link leaves its transactions alive"],
    },
    "C19": {
        "class_prefixes": ["c19-", "harness-crash"],
        "subs": [
            {"name": "sfr", "n_quick": 300, "n_thorough": 4000, "model": "coq/Frame/SaslFrame.v, coq/Auth/SaslWire.v, coq/Auth/Plain.v",
             "rule": "the SASL frame codec on the bytes after the size field: `enc` = a generated SASL frame (mechanisms, init, challenge, response, outcome; "
                     "optional fields present / absent, binaries of 0, 1, 255, 256 bytes) written and read back by the real FrameCodec, against enc_sasl_frame "
                     "and dec_sasl_frame; `dec` = the same bytes under other headers (doff 0,1,3,255; type 0,2,255), with bytes 6-7 set, cut short anywhere, "
                     "the descriptor by name (sym8, sym32) or as a long ulong, unknown and AMQP descriptors, trailing bytes, 18 fixed short frames, random "
                     "bytes; `plw` = a real listener with SaslPlainMechanism(user, password) that has written its mechanisms is sent ONE frame of arbitrary "
                     "bytes: a sasl-init with 15 response shapes (exact, with authzid, wrong / extended / truncated password, unknown user, one or no NUL, "
                     "extra NUL, swapped, none, empty, random) under mechanism names PLAIN / ANONYMOUS / empty, the same under other headers, cut short, "
                     "under the descriptor of another SASL frame or by name, frames only a server sends, a response before the init, random bytes - "
                     "against plain_on_frame_bytes: outcome ok / not ok, AMQP header, accept() returned or not"},
            {"name": "saslx", "n_quick": 30, "n_thorough": 600, "oracle": False,
             "rule": "replay: the library's SCRAM client (SHA-1/256/512) logs in through a tap, the recorded client bytes are played back on new connections "
                     "of the same acceptor and must be refused every time (the server nonce is fresh per negotiation); anon: a listener with the ANONYMOUS "
                     "mechanism against every sequence of up to 3 actions over SASL header / AMQP header / sasl-init with an offered or another mechanism / "
                     "sasl-response / sasl-challenge / open, each followed by the AMQP header and open a granted client would send, plus random longer ones: "
                     "granted only when the client began with the SASL header and a sasl-init"},
            {"name": "saslm", "n_quick": 300, "n_thorough": 3000, "model": "coq/Auth/SaslListener.v",
             "rule": "the listener cases of the sasl sub whose client actions are whole well-formed actions (SASL header, AMQP header, init with valid / invalid "
                     "credentials or client-first, response correct / incorrect, a SASL frame a client must not send, AMQP open, EOF), abstracted to that alphabet; "
                     "every sequence up to length 4 (thorough 5) per mechanism family plus random ones; distinct abstract cases only"},
            {"name": "saslc", "n_quick": 300, "n_thorough": 5000, "model": "coq/Auth/ScramClient.v",
             "rule": "the SCRAM client (SHA-1/256/512) against the scripted server, abstracted to the model's alphabet: per stage the class of the server's message (SASL header or "
                     "another header; mechanisms with / without the client's; a challenge that is well formed with a nonce extending the client's, a base64 salt and a decimal "
                     "iteration count - or not; an outcome with its code and additional data good / bad / absent; garbage; EOF); every one of the 45 tamperings x 3 hash variants, "
                     "12 iteration-count strings, 3 salts, plus random cases; distinct abstract cases only"},
            {"name": "sasl", "n_quick": 300, "n_thorough": 20000, "oracle": False,
             "rule": "listener (PLAIN, SCRAM-SHA-1/256/512, own and library credential stores) against a scripted byte-level client: all action sequences up to length 4 "
                     "over 10-letter alphabets, 22 PLAIN credential variants x 5 credential pairs, 12 mechanism names, 11 client-first and 14 client-final variants, malformed, "
                     "truncated, fragmented and out-of-turn frames, the library's own client with right/wrong credentials; SCRAM client against a scripted server: 45 "
                     "tamperings x 3 hash variants, 12 iteration-count strings, salts; the scripted side's SCRAM arithmetic is implemented in the harness (RFC 5802 test vectors pass)"},
        ],
        "rule": "saslc: abstract case = the server's messages stage by stage, run against the real client and through the extracted Coq step function; compared per stage: init / response / "
                "AMQP header / open written, result of open(). saslm: abstract case = mechanism family + action sequence, run against the real listener and through the extracted Coq step function; compared per step: "
                "mechanisms / challenge / outcome ok or not / AMQP header / open / close written, accept() result, EOF. sasl: direct oracle on concrete traces "
                "(open without authentication, outcome ok for bad credentials, valid exchange rejected, no failure reported, client accepts unproven server, "
                "client ok on non-ok outcome, panic, hang); non-trivial = accept succeeded or a full SCRAM exchange took place",
        "trusted": ["model scope: the listener's negotiation loop at the granularity of whole client actions; the credential comparison and the SCRAM arithmetic are "
                    "abstracted into the validity of an action, decided by the harness from the case (its own SCRAM implementation is checked against the RFC vectors and "
                    "against the library's client); for PLAIN the abstraction is discharged by Auth/SaslWire.v + Auth/Plain.v (bytes of the frame -> action), whose typed-field "
                    "check (typed_ok: a field is null where optional or of the declared type) stands for the typed decoders of the five SASL structs and is exercised on type-correct and malformed input only",
                    "hmac/sha1/sha2 crates (the library's own dependencies) used by the scripted side"],
        "assumptions": ["the client's bytes arrive as whole frames in the model-compared cases (fragmented and malformed input is exercised by the sasl sub and C15)"],
        "partial": ["the cryptographic strength of SCRAM is outside the model: the validity of a message (right proof, right signature, nonce extends) is decided by the harness's own RFC 5802 arithmetic"],
    },
    "C01": {
        "class_prefixes": ["c01-", "c06-frame-too-large", "c06-garbage", "c06-advertised-mfs", "c06-ssplit-fields", "harness-crash"],
        "subs": [{"name": "lwin", "n_quick": 6, "n_thorough": 60, "oracle": False,
             "rule": "the `ord` cases: a sending link on a listener-side session whose peer window (1..3) closes while 2..5 messages of growing length are "
                     "sent; the window re-opens through a flow that names a second, pipelined link the application has not accepted, the application sends "
                     "1..3 more messages on the first link, then a flow for the first link: the payloads must reach the wire in the order sent, all of them "
                     "(classes c01-listener-overtake, c01-listener-lost)"},
            {"name": "frame", "n_quick": 300, "n_thorough": 6000, "model": "coq/Frame/SessionSplit.v, coq/Frame/Transfer.v",
             "rule": "the ssplit cases of C06/C07: a transfer the link has already cut (more = true, because of the peer's max-message-size) and that the session cuts "
                     "again must keep its more flag on the last piece - otherwise the receiver ends the delivery early and the message does not arrive intact "
                     "(class c06-ssplit-fields)"},
            {"name": "msg", "n_quick": 250, "n_thorough": 5000, "model": "coq/Codec/Message.v",
             "rule": "the message codec at the level of sections: `enc` = generated messages (every subset of the optional sections, bodies of one amqp-value, "
                     "1..3 data or 1..3 amqp-sequence sections, or none) through Serializable / Deserializable<Message<Body<Value>>> against enc_message / "
                     "dec_message; `dec` = byte strings built from the sections: another order, a further section of some kind (the later one wins), more than "
                     "seven sections, no body, descriptors by name, a section with an unknown descriptor, a truncated tail (outside list-encoded sections), "
                     "trailing bytes, fixed short inputs"},
            {"name": "fdec", "n_quick": 400, "n_thorough": 6000, "model": "coq/Frame/AmqpFrame.v, coq/Frame/TransferWire.v, coq/Frame/Transfer.v",
             "rule": "the frame codec cases of C06 (see there); here the `xfer` cases: a transfer with a payload of 0..3 frame bodies through the real Transport "
                     "with max-frame-size 512/513/600/1024 - every byte written against transfer_perfs + wire_transfer, and every frame read back by the real "
                     "FrameDecoder against dec_frame; the parts read back must concatenate to the payload"},
            
            {"name": "e2e", "n_quick": 150, "n_thorough": 3000, "oracle": False,
             "rule": "a real client and a real in-process listener (both directions) over an in-memory pipe with a relay that re-chunks the byte stream (1..4096 bytes, "
                     "splitting frame headers); configuration drawn per case: max-frame-size 512..64Ki on each side, session windows 1..5000, credit Auto(n)/Manual, "
                     "sender settle mode settled/unsettled/mixed, receiver settle mode first/second, auto-accept / direct accept / a disposer task, channel buffer sizes "
                     "1..65535, 1..40 messages of 12 body kinds with every combination of optional sections, sizes 0..3 max-frame-sizes; paused-clock runtime "
                     "(deterministic) plus a tenth of the cases on a 4-worker runtime"},
            {"name": "frame", "n_quick": 300, "n_thorough": 20000, "model": "coq/Frame/SessionSplit.v",
             "rule": "ssplit cases (see C07): the sending session's cut against the model and the encoder"},
            {"name": "rx", "n_quick": 600, "n_thorough": 30000, "model": "coq/Link/Receiver.v",
             "rule": "receiving link scripts (see C10): reassembly against the model"},
        ],
        "rule": "e2e: direct oracle on the end-to-end run: every message sent is received exactly once, in order, byte for byte (re-encoded), every unsettled send gets "
                "the outcome the receiver applied, nothing hangs, no frame exceeds the advertised max-frame-size; non-trivial = at least two deliveries with a message "
                "larger than a frame. frame and rx tie the two models composed in the theorem to the code",
        "trusted": ["the theorem composes two models each tied to the code separately (split_transfer + frame encoder; Receiver); the composition through the real "
                    "session/connection engines is exercised by the e2e sub only"],
        "assumptions": ["the connection stays up"],
        "partial": ["exactly-once and order across a list of messages are one theorem over the composed cut + receiving link + credit models (C01_stream_intact) for one link in "
                    "credit mode Auto(n), one round per recv(); several links multiplexed on one session and deliveries interleaved frame by frame rest on C07/C11 "
                    "(consecutive transfer-ids, handles routed to their links) and are exercised by the e2e sub, not restated as one theorem",
                    "known findings: deadlock with channel buffers of 1-2 (c01-hang-small-buffers)"],
    },
    "C15": {
        "class_prefixes": ["c15-", "harness-crash"],
        "subs": [
            {"name": "c12", "n_quick": 200, "n_thorough": 4000, "model": "coq/Conn/WireEvents.v, coq/Frame/AmqpFrame.v, coq/Conn/Lifecycle.v",
             "rule": "the connection scripts of C12; here the `pw` events: 23 raw frames (every performative a connection without sessions can meet, on mapped "
                     "and other channels, a second open, closes, empty frames, garbage bodies, a truncated begin, unknown and foreign descriptors, doff 3, "
                     "frame type 1, a frame shorter than its header, junk after a performative, mandatory fields missing) written to an open connection, "
                     "to one whose close is under way and to one that is discarding, each followed by close / close+error / eof / local close: the model "
                     "classifies the frame from its bytes (on_frame_bytes) and the real engine must behave as it says"},
            {"name": "ovs", "n_quick": 40, "n_thorough": 600, "oracle": False,
             "rule": "the limit for what an endpoint reads is the max-frame-size it announced itself, whatever the peer announced: real client and real listener "
                     "with local limit L in {512, 1024, 4096, ..} against a scripted peer announcing R in {512, L, 4L, 2^24, 2^32-1}; the peer sends a close frame "
                     "padded to exactly S octets (L-1, L, L+1, 2L, 4L, random) or only the 8-octet header of a frame claiming 4L or 8 MiB: within the limit the "
                     "close is read; beyond it the frame is not acted on and a header alone is refused at once instead of being waited for"},
            {"name": "fdec", "n_quick": 400, "n_thorough": 6000, "model": "coq/Frame/AmqpFrame.v, coq/Codec/Composite.v",
             "rule": "the AMQP frame codec on the bytes after the size field: `enc` = a generated frame (9 performatives with random field presence and "
                     "boundary values, channels 0 / 65535 / random, transfer payloads of 0..300 bytes) written by the real Transport / FrameEncoder and read "
                     "back by the real FrameDecoder, against enc_frame and dec_frame; `dec` = the same frame under other headers (doff 0,1,3,4,255; type "
                     "1,2,255), cut short anywhere outside a nested composite and inside the header, the descriptor by name (sym8, sym32) or as a long "
                     "ulong, unknown and foreign descriptors, trailing bytes after a performative without payload, 19 fixed short frames, random bytes"},
            {"name": "hostile", "n_quick": 300, "n_thorough": 3000, "oracle": False,
             "rule": "client and listener brought by a valid prelude into one of 13 states (header only .. open, begun, sender / receiver attached with credit, mid multi-frame "
                     "delivery, delivery unsettled, detach / end / close sent), then one stimulus from a catalogue of 180 (frame sizes 0..0xffffffff, doff and type bytes, "
                     "random / truncated / over-long bodies, unknown descriptors, list counts 0xffffffff, nesting depth up to 100000, forged lengths, and every protocol "
                     "violation named by the property), then a well-behaved / silent / EOF follow-up; thorough adds 3000 mutated frames; each case in a child process "
                     "with a 2 MiB stack and a real-time limit"},
            {"name": "sasl", "n_quick": 100, "n_thorough": 2000, "oracle": False,
             "rule": "the SCRAM client against a scripted server naming extreme iteration counts (class c15-scram-iterations); see C19"},
            {"name": "sfr", "n_quick": 300, "n_thorough": 4000, "model": "coq/Frame/SaslFrame.v",
             "rule": "the SASL frame decoder on re-headed, truncated, re-described and random bytes (see C19): no panic, same result as dec_sasl_frame"},
            {"name": "codec", "n_quick": 300, "n_thorough": 20000, "model": "coq/Codec/Dec.v",
             "rule": "decoder totality on arbitrary bytes (see C04): the theorem side of 'never panics' for frame bodies"},
        ],
        "rule": "hostile: direct oracle per case: no panic (hook records message and location), no stack overflow, every pending application call completes within 120 s of "
                "virtual time after EOF, work in proportion to the frame (real time < 2 s, response < 1000 frames / 1 MiB, peak allocation < 64 MiB), an error is visible to "
                "the application whenever the endpoint shut something down, valid traffic still works when it ignored the frame, a second connection is unaffected; "
                "non-trivial = the stimulus was delivered in the intended state",
        "trusted": ["no Coq model of the engines under hostile input beyond the decoder (C04 theorems: total, no panic, consumes a prefix, on the decoder model) and the "
                    "lifecycle models of C12/C13/C19 whose step functions are total; the catalogue x states exploration is the deciding evidence"],
        "assumptions": ["real-time limits are machine dependent (2 s per stimulus)"],
        "partial": ["'never does work out of proportion' and 'never blocks forever' are decided by measurement on the catalogue, not by a theorem",
                    "known findings: unbounded decoder recursion, send() pending for ever after a stop, uncapped SCRAM iteration count"],
    },
    "C05": {
        "class_prefixes": ["c05-", "harness-crash"],
        "subs": [
            {"name": "c05", "n_quick": 1500, "n_thorough": 60000, "model": "coq/Codec/Spec.v", "reference": "c05-not-conforming",
             "rule": "values from the C03 generator (depth <= 3, arrays of supported element kinds, distinct map keys): `spec` = the real encoder's bytes through the extracted "
                     "reference decoder (must be exactly the value); `specv` = three alternative spec-valid encodings per value from the harness's variant encoder (uint0/smalluint/uint, "
                     "smallint/int, smalllong/long, ulong0/smallulong/ulong, str/sym/bin 8 and 32, list0/8/32, map8/32, array8/32 under every admissible element constructor, "
                     "an element constructor on empty arrays, boolean 0x56 vs 0x41/0x42, descriptors by code in three widths or by symbol in two) through the real from_slice "
                     "and through the reference decoder (both must be the value)"},
            {"name": "codec", "n_quick": 300, "n_thorough": 20000, "model": "coq/Codec/Dec.v, coq/Codec/Enc.v",
             "rule": "the enc/dec correspondence of C03/C04: ties the encoder and decoder models used by the theorems to the code"},
            {"name": "comp", "marker_violation": {"prefix": "SCHEMA-MISMATCH", "class": "c05-comp-schema"}, "n_quick": 700, "n_thorough": 8000, "model": "coq/Codec/Composite.v, coq/Codec/CompositeSpec.v",
             "rule": "28 list-encoded composite types (9 performatives, Error, Source, Target, Coordinator, Header, Properties, 4 SASL frame bodies, "
                     "Received / Accepted / Rejected / Released / Modified, Declare / Discharge / Declared / TransactionalState): the field vector of a "
                     "generated item is read through impls the translator writes from the struct definitions of this run; `canon`: to_vec(x) against "
                     "the model's serializer (pending nulls, trailing-field elision) and the decoded field vector; `var`: three spec-valid layouts per "
                     "item (absent fields as null / written out / an empty array, trailing absent fields kept or dropped, list8/list32, descriptor by "
                     "code in two widths or by name in two) and five broken ones (list cut short, null in a random position, count beyond the bytes, "
                     "one element too many, foreign descriptor) through from_slice::<T> and dec_composite; the schema the model runs is the "
                     "specification table's and must equal what the case line reports of the code (kinds, Default::default() values)"},
        ],
        "rule": "c05: a case is one byte string; compared: the value the reference decoder (Coq, extracted) assigns to it and the value the real decoder / the generator assigns; "
                "non-trivial = a variant encoding that differs from the encoder's own",
        "trusted": ["Codec/Spec.v is our reading of part 1 of the AMQP 1.0 specification (format-code table tied to the code's enum by Tie_FormatCodes); liberal where the "
                    "specification is silent (an empty array may omit its element constructor)",
                    "the harness's variant encoder (independent of the library's encoder)"],
        "assumptions": ["values within the C03 scope: arrays of null / compound / described elements are outside (known findings of C03)"],
        "partial": ["typed composite forms: list-encoded composites are covered by theorems (every layout accepted, field order and kinds tied to the specification table); "
                    "map-encoded composites and the typed decoding of a single field (e.g. a ulong where a uint is expected) are exercised by the typed harness only",
                    "the acceptance theorem holds under lib_compatible (two array classes excluded, refuted with witnesses) and nodup_keys (invalid per the specification)"],
    },
}
