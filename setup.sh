#!/bin/sh
# Build the whole framework from files on disk (offline): Coq development,
# extracted oracle, Rust harness against /repo's working tree (hooks on).
set -e
cd "$(dirname "$0")"
export CARGO_NET_OFFLINE=true
[ -f translator/translate.py ] && python3 translator/translate.py /repo coq/Gen || true
(cd coq && ./mk)
(cd extraction && ./build.sh)
[ -f /repo/Cargo.lock ] && cp /repo/Cargo.lock harness/Cargo.lock
(cd harness && cargo build --offline)
echo setup done
