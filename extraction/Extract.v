(* Extraction of the executable models to OCaml.  ExtrOcamlBasic only:
   bool, option, unit, list, prod, sumbool, sumor are mapped to their OCaml
   counterparts; N / Z / positive / nat stay Coq datatypes.  No Extract
   Constant, no other Extract Inductive. *)
Require Extraction.
Require Import ExtrOcamlBasic.
From FV Require Import Base.Serial Session.Window Link.SenderCredit Base.Bytes Codec.Value Codec.Enc Codec.Dec Codec.Spec Codec.Composite Codec.Message Codec.CompositeSpec Frame.AmqpFrame Frame.TransferWire Frame.Transfer Lib.LengthDelimited Session.Disposition Lib.Slab Session.Ids Conn.Lifecycle Conn.WireEvents Conn.Timers Link.Receiver Session.SessLife Auth.SaslListener Frame.SessionSplit Link.LinkLife Link.RecvLife Link.SendCancel Txn.Manager Conn.Failure Auth.ScramClient Frame.SaslFrame Auth.SaslWire Txn.Controller.
Extraction Language OCaml.
Separate Extraction
  Window.run Window.step Window.begun_for_oracle Window.on_incoming_flow
  SenderCredit.lstep SenderCredit.linit SenderCredit.snd_on_incoming_flow
  Enc.enc_bytes Dec.from_slice Value.wf Spec.spec_valid
  Composite.enc_composite Composite.size_composite Composite.dec_composite Composite.dispatch CompositeSpec.spec_schemas CompositeSpec.spec_field_names CompositeSpec.performative_schemas CompositeSpec.delivery_state_schemas Composite.dec_via_enum AmqpFrame.enc_frame AmqpFrame.dec_frame TransferWire.transfer_perfs Message.enc_message Message.dec_message Message.code_of_descriptor
  Transfer.wire_transfer Transfer.wire_other LengthDelimited.ld_feed_all
  Disposition.dstep
  Ids.lstep Ids.ls_init Ids.cstep Ids.cn_init
  Lifecycle.step WireEvents.on_frame_bytes
  Timers.tstep Timers.tinit Timers.advertised
  Receiver.rstep Receiver.rinit
  SessLife.sstep
  SaslListener.lstep
  SessionSplit.session_split
  LinkLife.lkstep
  RecvLife.rkstep
  SendCancel.step SendCancel.init
  Manager.step Manager.enabled Manager.init
  Failure.step Failure.init
  ScramClient.cstep
  SaslFrame.enc_sasl_frame SaslFrame.dec_sasl_frame SaslFrame.sasl_schemas SaslWire.plain_on_frame_bytes SaslWire.typed_ok
  Controller.crun Controller.final_wire.
