(* Correspondence oracle driver: parses one case per line, runs the extracted
   Coq model, prints one canonical result line per case.  It only parses and
   prints; all behaviour comes from Model (extracted). *)
open BinNums

let rec pos_of_int (i : int) : positive =
  if i = 1 then Coq_xH
  else if i land 1 = 0 then Coq_xO (pos_of_int (i lsr 1))
  else Coq_xI (pos_of_int (i lsr 1))
let n_of_int (i : int) : coq_N = if i = 0 then N0 else Npos (pos_of_int i)
let rec int_of_pos (p : positive) : int =
  match p with Coq_xH -> 1 | Coq_xO q -> 2 * int_of_pos q | Coq_xI q -> 2 * int_of_pos q + 1
let int_of_n (x : coq_N) : int = match x with N0 -> 0 | Npos p -> int_of_pos p

let n_of_string s = n_of_int (int_of_string s)
let opt_n s = if s = "-" then None else Some (n_of_string s)
let opt_b s = if s = "-" then None else Some (s = "1")
let str_n x = string_of_int (int_of_n x)
let str_on = function None -> "-" | Some x -> str_n x
let str_b b = if b then "1" else "0"
let str_ob = function None -> "-" | Some b -> str_b b

let split_on s sep =
  List.filter (fun x -> x <> "") (List.map String.trim (String.split_on_char sep s))
let words s = List.filter (fun x -> x <> "") (String.split_on_char ' ' s)

(* ---------- C07: session window ---------- *)
let c07_ev (s : string) : Window.ev =
  match words s with
  | ["O"; ih; h; tag; settled; more; pay] ->
      Window.OutXfer { Window.x_ih = n_of_string ih; x_handle = n_of_string h; x_tag = opt_n tag;
                       x_settled = opt_b settled; x_more = (more = "1"); x_pay = n_of_string pay }
  | ["F"; nii; iw; noi; ow] ->
      Window.InFlow { Window.f_nii = opt_n nii; f_iw = n_of_string iw; f_noi = n_of_string noi;
                      f_ow = n_of_string ow; f_link = None }
  | ["X"] -> Window.InXfer
  | _ -> failwith ("c07: bad event: " ^ s)

let c07_frame (f : Window.sframe) : string =
  match f with
  | Window.FTransfer (_tid, did, x) ->
      Printf.sprintf "T %s %s %s %s %s %s" (str_on did) (str_n x.Window.x_handle) (str_on x.Window.x_tag)
        (str_ob x.Window.x_settled) (str_b x.Window.x_more) (str_n x.Window.x_pay)
  | Window.FFlow fl ->
      Printf.sprintf "W %s %s %s %s" (str_on fl.Window.f_nii) (str_n fl.Window.f_iw)
        (str_n fl.Window.f_noi) (str_n fl.Window.f_ow)

let c07_counters (s : Window.sess) : string =
  Printf.sprintf "noi=%s nii=%s riw=%s row=%s nfc=%s buf=%d dmap=%d"
    (str_n s.Window.s_noi) (str_n s.Window.s_nii) (str_n s.Window.s_riw) (str_n s.Window.s_row)
    (str_n s.Window.s_nfc) (List.length s.Window.s_buf) (List.length s.Window.s_dmap)

let c07 (rest : string) : string =
  match split_on rest '|' with
  | hdr :: evs ->
      let evs = match evs with [] -> [] | [e] -> split_on e ';' | _ -> failwith "c07: too many |" in
      (match words hdr with
       | [noi; iw; ow; bnoi; biw; bow] ->
           let s0 = Window.begun_for_oracle (n_of_string noi) (n_of_string iw) (n_of_string ow)
                      (n_of_string bnoi) (n_of_string biw) (n_of_string bow) in
           (* step event by event so that counters can be printed after each *)
           let buf = Buffer.create 256 in
           let _ = List.fold_left (fun s e ->
             let (s', out) = Window.step s (c07_ev e) in
             Buffer.add_string buf (String.concat " , " (List.map c07_frame out));
             Buffer.add_string buf (" # " ^ c07_counters s' ^ " ; ");
             s') s0 evs in
           Buffer.contents buf
       | _ -> failwith "c07: bad header")
  | [] -> failwith "c07: empty"

(* ---------- C08: sender credit ---------- *)
let c08_flow (f : SenderCredit.lflow option) : string =
  match f with
  | None -> "-"
  | Some f -> Printf.sprintf "[%s %s %s %s %s]" (str_on f.SenderCredit.lf_dc) (str_on f.SenderCredit.lf_credit)
                (str_on f.SenderCredit.lf_avail) (str_b f.SenderCredit.lf_drain) (str_b f.SenderCredit.lf_echo)

let c08 (rest : string) : string =
  match split_on rest '|' with
  | hdr :: evs ->
      let evs = match evs with [] -> [] | [e] -> split_on e ';' | _ -> failwith "c08: too many |" in
      let s0 = SenderCredit.linit (n_of_string (String.trim hdr)) in
      let buf = Buffer.create 256 in
      let _ = List.fold_left (fun s e ->
        let ev = match words e with
          | ["F"; dc; cr; av; drain; echo] ->
              SenderCredit.LFlow { SenderCredit.lf_dc = opt_n dc; lf_credit = opt_n cr; lf_avail = opt_n av;
                                   lf_drain = (drain = "1"); lf_echo = (echo = "1") }
          | ["S"] -> SenderCredit.LSend
          | _ -> failwith ("c08: bad event " ^ e) in
        let (s', o) = SenderCredit.lstep s ev in
        (match o with
         | SenderCredit.OFlow r -> Buffer.add_string buf ("R " ^ c08_flow r)
         | SenderCredit.OSent t -> Buffer.add_string buf ("S " ^ str_n t)
         | SenderCredit.OWait -> Buffer.add_string buf "WAIT");
        Buffer.add_string buf (Printf.sprintf " # dc=%s credit=%s avail=%s drain=%s ; "
          (str_n s'.SenderCredit.l_dc) (str_n s'.SenderCredit.l_credit) (str_n s'.SenderCredit.l_avail)
          (str_b s'.SenderCredit.l_drain));
        s') s0 evs in
      Buffer.contents buf
  | [] -> failwith "c08: empty"

let dispatch (line : string) : string =
  match String.index_opt line ' ' with
  | None -> failwith "no model tag"
  | Some i ->
      let tag = String.sub line 0 i in
      let rest = String.sub line (i + 1) (String.length line - i - 1) in
      (match tag with
       | "c07" -> c07 rest
       | "c08" -> c08 rest
       | _ -> failwith ("unknown model " ^ tag))

let () =
  try
    while true do
      let line = input_line stdin in
      if String.trim line <> "" then begin
        let out = try dispatch line with Failure m -> "ORACLE-ERROR " ^ m in
        print_string out; print_newline ()
      end
    done
  with End_of_file -> ()
