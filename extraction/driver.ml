(* Correspondence oracle driver: parses one case per line, runs the extracted
   Coq model, prints one canonical result line per case.  It only parses and
   prints; all behaviour comes from Model (extracted). *)
open BinNums
(* the extracted Coq [String] module must not capture the s.[i] syntax *)
module String = Stdlib.String

let rec pos_of_int (i : int) : positive =
  if i = 1 then Coq_xH
  else if i land 1 = 0 then Coq_xO (pos_of_int (i lsr 1))
  else Coq_xI (pos_of_int (i lsr 1))
let n_of_int (i : int) : coq_N = if i = 0 then N0 else Npos (pos_of_int i)
let rec int_of_pos (p : positive) : int =
  match p with Coq_xH -> 1 | Coq_xO q -> 2 * int_of_pos q | Coq_xI q -> 2 * int_of_pos q + 1
let int_of_n (x : coq_N) : int = match x with N0 -> 0 | Npos p -> int_of_pos p

let n_of_string s = n_of_int (int_of_string s)
let opt_n s = if s = "-" then None else Some (n_of_string s)
let opt_b s = if s = "-" then None else Some (s = "1")
let str_n x = string_of_int (int_of_n x)
let str_on = function None -> "-" | Some x -> str_n x
let str_b b = if b then "1" else "0"
let str_ob = function None -> "-" | Some b -> str_b b

let split_on s sep =
  Stdlib.List.filter (fun x -> x <> "") (Stdlib.List.map Stdlib.String.trim (Stdlib.String.split_on_char sep s))
let words s = Stdlib.List.filter (fun x -> x <> "") (Stdlib.String.split_on_char ' ' s)

(* ---------- C07: session window ---------- *)
let c07_ev (s : string) : Window.ev =
  match words s with
  | ["O"; ih; h; tag; settled; more; pay] ->
      Window.OutXfer { Window.x_ih = n_of_string ih; x_handle = n_of_string h; x_tag = opt_n tag;
                       x_settled = opt_b settled; x_more = (more = "1"); x_pay = n_of_string pay }
  | ["F"; nii; iw; noi; ow] ->
      Window.InFlow { Window.f_nii = opt_n nii; f_iw = n_of_string iw; f_noi = n_of_string noi;
                      f_ow = n_of_string ow; f_link = None }
  | ["X"] | ["XD"] -> Window.InXfer     (* a transfer for a dropped endpoint is discarded - and counted all the same *)
  | _ -> failwith ("c07: bad event: " ^ s)

let c07_frame (f : Window.sframe) : string =
  match f with
  | Window.FTransfer (_tid, did, x) ->
      Printf.sprintf "T %s %s %s %s %s %s" (str_on did) (str_n x.Window.x_handle) (str_on x.Window.x_tag)
        (str_ob x.Window.x_settled) (str_b x.Window.x_more) (str_n x.Window.x_pay)
  | Window.FFlow fl ->
      Printf.sprintf "W %s %s %s %s%s" (str_on fl.Window.f_nii) (str_n fl.Window.f_iw)
        (str_n fl.Window.f_noi) (str_n fl.Window.f_ow)
        (match fl.Window.f_link with
         | None -> ""
         | Some l -> Printf.sprintf " L %s %s %s %s %s" (str_on l.Window.lf_dc) (str_on l.Window.lf_credit)
                       (str_on l.Window.lf_avail) (str_b l.Window.lf_drain) (str_b l.Window.lf_echo))

let c07_counters (s : Window.sess) : string =
  Printf.sprintf "noi=%s nii=%s riw=%s row=%s nfc=%s buf=%d dmap=%d"
    (str_n s.Window.s_noi) (str_n s.Window.s_nii) (str_n s.Window.s_riw) (str_n s.Window.s_row)
    (str_n s.Window.s_nfc) (Stdlib.List.length s.Window.s_buf) (Stdlib.List.length s.Window.s_dmap)

let c07 (rest : string) : string =
  match split_on rest '|' with
  | hdr :: evs ->
      let evs = match evs with [] -> [] | [e] -> split_on e ';' | _ -> failwith "c07: too many |" in
      (match words hdr with
       | [noi; iw; ow; bnoi; biw; bow] ->
           let s0 = Window.begun_for_oracle (n_of_string noi) (n_of_string iw) (n_of_string ow)
                      (n_of_string bnoi) (n_of_string biw) (n_of_string bow) in
           (* step event by event so that counters can be printed after each *)
           let buf = Buffer.create 256 in
           (* the sending link the flows with link state are about: initial delivery-count 0, no credit *)
           let _ = Stdlib.List.fold_left (fun (s, ls) e ->
             let (s', ls', out) = match words e with
               | ["FL"; nii; iw; noi; ow; dc; cr; drain; echo] ->
                   (* the link answers first (its model: SenderCredit), the session wraps the answer and
                      releases what the re-opened window allows (Window.on_incoming_flow with that answer) *)
                   let lf = { SenderCredit.lf_dc = opt_n dc; lf_credit = opt_n cr; lf_avail = None;
                              lf_drain = (drain = "1"); lf_echo = (echo = "1") } in
                   let (ls', reply) = SenderCredit.snd_on_incoming_flow ls lf in
                   let wl (h : int) (l : SenderCredit.lflow) : Window.lflow =
                     { Window.lf_handle = n_of_int h; lf_dc = l.SenderCredit.lf_dc; lf_credit = l.SenderCredit.lf_credit;
                       lf_avail = l.SenderCredit.lf_avail; lf_drain = l.SenderCredit.lf_drain; lf_echo = l.SenderCredit.lf_echo } in
                   let f = { Window.f_nii = opt_n nii; f_iw = n_of_string iw; f_noi = n_of_string noi;
                             f_ow = n_of_string ow; f_link = Some (wl 9 lf) } in
                   let (s', out) = Window.on_incoming_flow s f (match reply with Some r -> Some (wl 1 r) | None -> None) in
                   (s', ls', out)
               | _ -> let (s', out) = Window.step s (c07_ev e) in (s', ls, out) in
             Buffer.add_string buf (Stdlib.String.concat " , " (Stdlib.List.map c07_frame out));
             (match words e with
              | "FL" :: _ ->
                  Buffer.add_string buf (" L(" ^ str_n ls'.SenderCredit.l_dc ^ "," ^ str_n ls'.SenderCredit.l_credit ^ "," ^ str_b ls'.SenderCredit.l_drain ^ ")")
              | _ -> ());
             Buffer.add_string buf (" # " ^ c07_counters s' ^ " ; ");
             (s', ls')) (s0, SenderCredit.linit N0) evs in
           Buffer.contents buf
       | _ -> failwith "c07: bad header")
  | [] -> failwith "c07: empty"

(* ---------- C08: sender credit ---------- *)
let c08_flow (f : SenderCredit.lflow option) : string =
  match f with
  | None -> "-"
  | Some f -> Printf.sprintf "[%s %s %s %s %s]" (str_on f.SenderCredit.lf_dc) (str_on f.SenderCredit.lf_credit)
                (str_on f.SenderCredit.lf_avail) (str_b f.SenderCredit.lf_drain) (str_b f.SenderCredit.lf_echo)

let c08 (rest : string) : string =
  match split_on rest '|' with
  | hdr :: evs ->
      let evs = match evs with [] -> [] | [e] -> split_on e ';' | _ -> failwith "c08: too many |" in
      let s0 = SenderCredit.linit (n_of_string (Stdlib.String.trim hdr)) in
      let buf = Buffer.create 256 in
      let _ = Stdlib.List.fold_left (fun s e ->
        let ev = match words e with
          | ["F"; dc; cr; av; drain; echo] ->
              SenderCredit.LFlow { SenderCredit.lf_dc = opt_n dc; lf_credit = opt_n cr; lf_avail = opt_n av;
                                   lf_drain = (drain = "1"); lf_echo = (echo = "1") }
          | ["S"] | ["T"] -> SenderCredit.LSend      (* T: the non-waiting try_consume - the same credit step, refused instead of waiting *)
          | _ -> failwith ("c08: bad event " ^ e) in
        let is_try = (words e = ["T"]) in
        let (s', o) = SenderCredit.lstep s ev in
        (match o with
         | SenderCredit.OFlow r -> Buffer.add_string buf ("R " ^ c08_flow r)
         | SenderCredit.OSent t -> Buffer.add_string buf ((if is_try then "T " else "S ") ^ str_n t)
         | SenderCredit.OWait -> Buffer.add_string buf (if is_try then "TFAIL" else "WAIT"));
        Buffer.add_string buf (Printf.sprintf " # dc=%s credit=%s avail=%s drain=%s ; "
          (str_n s'.SenderCredit.l_dc) (str_n s'.SenderCredit.l_credit) (str_n s'.SenderCredit.l_avail)
          (str_b s'.SenderCredit.l_drain));
        s') s0 evs in
      Buffer.contents buf
  | [] -> failwith "c08: empty"

(* ---------- codec: values as token text, numbers in hex ---------- *)
let n_of_hex (s : string) : coq_N =
  (* bit by bit, no OCaml integer involved, so 64-bit values are exact *)
  let bits = ref [] in
  Stdlib.String.iter (fun ch ->
    let d = match ch with
      | '0'..'9' -> Char.code ch - 48 | 'a'..'f' -> Char.code ch - 87 | 'A'..'F' -> Char.code ch - 55
      | _ -> failwith "bad hex" in
    bits := !bits @ [d land 8 <> 0; d land 4 <> 0; d land 2 <> 0; d land 1 <> 0]) s;
  let rec strip = function false :: r -> strip r | l -> l in
  match strip !bits with
  | [] -> N0
  | _ :: rest -> Npos (Stdlib.List.fold_left (fun p b -> if b then Coq_xI p else Coq_xO p) Coq_xH rest)

let hex_of_n (x : coq_N) : string =
  match x with
  | N0 -> "0"
  | Npos p ->
      let rec bits p acc = match p with
        | Coq_xH -> true :: acc | Coq_xO q -> bits q (false :: acc) | Coq_xI q -> bits q (true :: acc) in
      let bl = bits p [] in
      let pad = (4 - Stdlib.List.length bl mod 4) mod 4 in
      let bl = Stdlib.List.init pad (fun _ -> false) @ bl in
      let buf = Buffer.create 16 in
      let rec go = function
        | a :: b :: c :: d :: r ->
            let v = (if a then 8 else 0) + (if b then 4 else 0) + (if c then 2 else 0) + (if d then 1 else 0) in
            Buffer.add_char buf (Stdlib.String.get "0123456789abcdef" v); go r
        | _ -> () in
      go bl; Buffer.contents buf

let bytes_of_hex (s : string) : coq_N list =
  if s = "-" then [] else
  Stdlib.List.init (Stdlib.String.length s / 2) (fun i -> n_of_int (int_of_string ("0x" ^ Stdlib.String.sub s (2 * i) 2)))
let hex_of_bytes (b : coq_N list) : string =
  if b = [] then "-" else Stdlib.String.concat "" (Stdlib.List.map (fun x -> Printf.sprintf "%02x" (int_of_n x)) b)

let rec parse_value (toks : string list) : Value.value * string list =
  match toks with
  | "N" :: r -> (Value.VNull, r)
  | "B" :: b :: r -> (Value.VBool (b = "1"), r)
  | "ub" :: x :: r -> (Value.VUbyte (n_of_hex x), r)
  | "us" :: x :: r -> (Value.VUshort (n_of_hex x), r)
  | "ui" :: x :: r -> (Value.VUint (n_of_hex x), r)
  | "ul" :: x :: r -> (Value.VUlong (n_of_hex x), r)
  | "by" :: x :: r -> (Value.VByte (n_of_hex x), r)
  | "sh" :: x :: r -> (Value.VShort (n_of_hex x), r)
  | "in" :: x :: r -> (Value.VInt (n_of_hex x), r)
  | "lo" :: x :: r -> (Value.VLong (n_of_hex x), r)
  | "fl" :: x :: r -> (Value.VFloat (n_of_hex x), r)
  | "do" :: x :: r -> (Value.VDouble (n_of_hex x), r)
  | "d32" :: x :: r -> (Value.VDec32 (bytes_of_hex x), r)
  | "d64" :: x :: r -> (Value.VDec64 (bytes_of_hex x), r)
  | "d128" :: x :: r -> (Value.VDec128 (bytes_of_hex x), r)
  | "ch" :: x :: r -> (Value.VChar (n_of_hex x), r)
  | "ts" :: x :: r -> (Value.VTimestamp (n_of_hex x), r)
  | "uu" :: x :: r -> (Value.VUuid (bytes_of_hex x), r)
  | "bin" :: x :: r -> (Value.VBinary (bytes_of_hex x), r)
  | "str" :: x :: r -> (Value.VString (bytes_of_hex x), r)
  | "sym" :: x :: r -> (Value.VSymbol (bytes_of_hex x), r)
  | "L" :: n :: r -> let (l, r') = parse_values (int_of_string ("0x" ^ n)) r in (Value.VList l, r')
  | "A" :: n :: r -> let (l, r') = parse_values (int_of_string ("0x" ^ n)) r in (Value.VArray l, r')
  | "M" :: n :: r ->
      let rec go k r acc = if k = 0 then (Stdlib.List.rev acc, r) else
        let (a, r1) = parse_value r in let (b, r2) = parse_value r1 in go (k - 1) r2 ((a, b) :: acc) in
      let (l, r') = go (int_of_string ("0x" ^ n)) r [] in (Value.VMap l, r')
  | "Dn" :: x :: r -> let (v, r') = parse_value r in (Value.VDescribed (Value.DName (bytes_of_hex x), v), r')
  | "Dc" :: x :: r -> let (v, r') = parse_value r in (Value.VDescribed (Value.DCode (n_of_hex x), v), r')
  | t :: _ -> failwith ("bad value token " ^ t)
  | [] -> failwith "value expected"
and parse_values (k : int) (toks : string list) : Value.value list * string list =
  let rec go k r acc = if k = 0 then (Stdlib.List.rev acc, r) else
    let (v, r') = parse_value r in go (k - 1) r' (v :: acc) in
  go k toks []

let rec print_value (b : Buffer.t) (v : Value.value) : unit =
  let p = Buffer.add_string b in
  match v with
  | Value.VNull -> p "N"
  | Value.VBool x -> p (if x then "B 1" else "B 0")
  | Value.VUbyte n -> p ("ub " ^ hex_of_n n) | Value.VUshort n -> p ("us " ^ hex_of_n n)
  | Value.VUint n -> p ("ui " ^ hex_of_n n) | Value.VUlong n -> p ("ul " ^ hex_of_n n)
  | Value.VByte n -> p ("by " ^ hex_of_n n) | Value.VShort n -> p ("sh " ^ hex_of_n n)
  | Value.VInt n -> p ("in " ^ hex_of_n n) | Value.VLong n -> p ("lo " ^ hex_of_n n)
  | Value.VFloat n -> p ("fl " ^ hex_of_n n) | Value.VDouble n -> p ("do " ^ hex_of_n n)
  | Value.VDec32 x -> p ("d32 " ^ hex_of_bytes x) | Value.VDec64 x -> p ("d64 " ^ hex_of_bytes x)
  | Value.VDec128 x -> p ("d128 " ^ hex_of_bytes x)
  | Value.VChar n -> p ("ch " ^ hex_of_n n) | Value.VTimestamp n -> p ("ts " ^ hex_of_n n)
  | Value.VUuid x -> p ("uu " ^ hex_of_bytes x) | Value.VBinary x -> p ("bin " ^ hex_of_bytes x)
  | Value.VString x -> p ("str " ^ hex_of_bytes x) | Value.VSymbol x -> p ("sym " ^ hex_of_bytes x)
  | Value.VList l -> p (Printf.sprintf "L %x" (Stdlib.List.length l)); Stdlib.List.iter (fun x -> p " "; print_value b x) l
  | Value.VArray l -> p (Printf.sprintf "A %x" (Stdlib.List.length l)); Stdlib.List.iter (fun x -> p " "; print_value b x) l
  | Value.VMap l -> p (Printf.sprintf "M %x" (Stdlib.List.length l));
      Stdlib.List.iter (fun (k, x) -> p " "; print_value b k; p " "; print_value b x) l
  | Value.VDescribed (Value.DName s, x) -> p ("Dn " ^ hex_of_bytes s ^ " "); print_value b x
  | Value.VDescribed (Value.DCode n, x) -> p ("Dc " ^ hex_of_n n ^ " "); print_value b x

let rec nat_of_int (i : int) : Datatypes.nat = if i <= 0 then Datatypes.O else Datatypes.S (nat_of_int (i - 1))
let rec int_of_nat (n : Datatypes.nat) : int = match n with Datatypes.O -> 0 | Datatypes.S m -> 1 + int_of_nat m

let codec_enc (rest : string) : string =
  let (v, r) = parse_value (words rest) in
  if r <> [] then failwith "enc: trailing tokens" else
  match Enc.enc_bytes v with
  | Some b -> "OK " ^ hex_of_bytes b
  | None -> "ERR"

let codec_dec (rest : string) : string =
  let bs = bytes_of_hex (Stdlib.String.trim rest) in
  match Dec.from_slice (nat_of_int (Stdlib.List.length bs + 1)) bs with
  | Bytes.Ok (v, _) -> let b = Buffer.create 64 in Buffer.add_string b "OK "; print_value b v; Buffer.contents b
  | Bytes.Err _ -> "ERR"
  | Bytes.Panic -> "PANIC"
  | Bytes.OutOfFuel -> "OUTOFFUEL"

(* ---------- C06: frames ---------- *)
let frame_xfer (rest : string) : string =
  match words rest with
  | [m; ch; single; first; mid; last; payload] ->
      let p = { Transfer.p_single = bytes_of_hex single; p_first = bytes_of_hex first;
                p_mid = bytes_of_hex mid; p_last = bytes_of_hex last } in
      (match Transfer.wire_transfer (n_of_string m) (n_of_string ch) p (bytes_of_hex payload) with
       | Some ws -> "OK " ^ hex_of_bytes (Stdlib.List.concat ws)
       | None -> "NONE")
  | _ -> failwith "xfer: bad case"

let frame_other (rest : string) : string =
  match words rest with
  | [m; ch; perf] ->
      (match Transfer.wire_other (n_of_string m) (n_of_string ch) (bytes_of_hex perf) with
       | Some ws -> "OK " ^ hex_of_bytes (Stdlib.List.concat ws)
       | None -> "NONE")
  | _ -> failwith "other: bad case"

let frame_ldf (rest : string) : string =
  match words rest with
  | [maxf; chunks] ->
      let cs = Stdlib.List.map bytes_of_hex (Stdlib.String.split_on_char '|' chunks) in
      let st0 = { LengthDelimited.ld_buf = []; ld_failed = false } in
      let (_, frames) = LengthDelimited.ld_feed_all (n_of_string maxf) st0 cs in
      Stdlib.String.concat " " (Stdlib.List.map (fun f -> "F " ^ hex_of_bytes f) frames)
  | [maxf] -> ignore maxf; ""
  | _ -> failwith "ldf: bad case"

(* ---------- C02: settlement ---------- *)
let c02 (rest : string) : string =
  match split_on rest '|' with
  | hdr :: evs ->
      let evs = match evs with [] -> [] | [e] -> split_on e ';' | _ -> failwith "c02: too many |" in
      (match words hdr with
       | [noi; links] ->
           let nl = Stdlib.String.length links in
           let ls = Stdlib.List.init nl (fun i ->
             (n_of_int (100 + i), Disposition.LSender ((links.[i] = '2'), []))) in
           let s0 = { Disposition.ds = { Disposition.d_map = []; d_links = ls }; ds_next = n_of_string noi } in
           let buf = Buffer.create 256 in
           let _ = Stdlib.List.fold_left (fun s e ->
             let ev = match words e with
               | ["S"; l; t] -> Disposition.DSend (n_of_int (100 + int_of_string l), n_of_string t)
               | ["D"; r; f; l; st; state] ->
                   Disposition.DDisp ((r = "1"), n_of_string f, opt_n l, (st = "1"), opt_n state)
               | _ -> failwith ("c02: bad event " ^ e) in
             let ((s', res), ech) = Disposition.dstep s ev in
             (match ev with
              | Disposition.DSend _ -> Buffer.add_string buf "S"
              | Disposition.DDisp _ ->
                  Buffer.add_string buf ("D[" ^ Stdlib.String.concat "," (Stdlib.List.map (fun ((a, b), st) ->
                    Printf.sprintf "%s-%s:%s" (str_n a) (str_n b) (str_on st)) ech) ^ "]"));
             let rs = Stdlib.List.sort compare (Stdlib.List.map (fun ((ih, tag), o) ->
               Printf.sprintf "%s/%s=%s" (str_n ih) (str_n tag) (str_on o)) res) in
             let ids = Stdlib.List.filter_map (fun ((r, id), _) -> if r then Some (int_of_n id) else None)
                         s'.Disposition.ds.Disposition.d_map in
             let ids = Stdlib.List.sort compare ids in
             let uns = Stdlib.List.mapi (fun i (_, l) ->
               let tags = match l with
                 | Disposition.LSender (_, u) -> Stdlib.List.map (fun (t, _) -> int_of_n t) u
                 | Disposition.LReceiver u -> Stdlib.List.map (fun (t, _) -> int_of_n t) u in
               Printf.sprintf "%d:[%s]" i (Stdlib.String.concat ", " (Stdlib.List.map string_of_int (Stdlib.List.sort compare tags))))
               s'.Disposition.ds.Disposition.d_links in
             Buffer.add_string buf (Printf.sprintf " R[%s] M[%s] U[%s] ; " (Stdlib.String.concat "," rs)
               (Stdlib.String.concat ", " (Stdlib.List.map string_of_int ids)) (Stdlib.String.concat " " uns));
             s') s0 evs in
           Buffer.contents buf
       | _ -> failwith "c02: bad header")
  | [] -> failwith "c02: empty"

(* ---------- C11: handles, names, channels ---------- *)
let lerr_str = function
  | Ids.ENotMapped -> "SessionNotMapped" | Ids.EDupName -> "DuplicatedLinkName" | Ids.EHandleInUse -> "HandleInUse"
  | Ids.ENameNotFound -> "RemoteAttachingLinkNameNotFound" | Ids.EUnattached -> "UnattachedHandle"

let c11_lnk (rest : string) : string =
  let ops = split_on rest ';' in
  let buf = Buffer.create 256 in
  let _ = Stdlib.List.fold_left (fun s o ->
    let op = match words o with
      | ["A"; name] -> Ids.OpAlloc (n_of_string name)
      | ["I"; name; ih] -> Ids.OpInAttach (n_of_string name, n_of_string ih)
      | ["D"; ih] -> Ids.OpInDetach (n_of_string ih)
      | ["O"; h] -> Ids.OpOutDetach (n_of_string h)
      | ["R"; ih] -> Ids.OpRoute (n_of_string ih)
      | _ -> failwith ("lnk: bad op " ^ o) in
    let (s', r) = Ids.lstep s op in
    Buffer.add_string buf (match r with
      | Ids.LOk h -> "ok " ^ str_n h
      | Ids.LErr e -> "err " ^ lerr_str e
      | Ids.LUnit -> "unit");
    Buffer.add_string buf " ; "; s') Ids.ls_init ops in
  Buffer.contents buf

let c11_chn (rest : string) : string =
  match split_on rest '|' with
  | hdr :: ops ->
      let ops = match ops with [] -> [] | [o] -> split_on o ';' | _ -> failwith "chn: too many |" in
      (match words hdr with
       | [lm; rm] ->
           let buf = Buffer.create 256 in
           let _ = Stdlib.List.fold_left (fun s o ->
             let op = match words o with
               | ["S"] -> Ids.OpAllocSession
               | ["X"; c] -> Ids.OpDeallocSession (n_of_string c)
               | ["B"; inc; rem] -> Ids.OpInBegin (n_of_string inc, opt_n rem)
               | ["E"; inc] -> Ids.OpInEnd (n_of_string inc)
               | ["R"; inc] -> Ids.OpRouteCh (n_of_string inc)
               | _ -> failwith ("chn: bad op " ^ o) in
             let (s', r) = Ids.cstep s op in
             Buffer.add_string buf (match r with
               | Ids.COk c -> "ok " ^ str_n c
               | Ids.CErr Ids.EChannelMax -> "err ChannelMaxReached"
               | Ids.CErr Ids.ENotFound -> "err NotFound"
               | Ids.CErr Ids.EIllegalState -> "err IllegalState"
               | Ids.CErr Ids.ENotImplemented -> "err NotImplemented"
               | Ids.CUnit -> "unit"
               | Ids.CPanic -> "panic");
             Buffer.add_string buf " ; "; s') (Ids.cn_init (n_of_string lm) (n_of_string rm)) ops in
           Buffer.contents buf
       | _ -> failwith "chn: bad header")
  | [] -> failwith "chn: empty"

(* ---------- C12: connection lifecycle ---------- *)
let kind_str = function
  | Lifecycle.KIllegalState -> "IllegalState" | Lifecycle.KNotImplemented -> "NotImplemented"
  | Lifecycle.KNotFound -> "NotFound" | Lifecycle.KNotAllowed -> "NotAllowed"
  | Lifecycle.KRemoteClosed -> "RemoteClosed" | Lifecycle.KRemoteClosedWithError -> "RemoteClosedWithError"
  | Lifecycle.KTransportError -> "TransportError" | Lifecycle.KIo -> "Io"
  | Lifecycle.KHeaderMismatch -> "ProtocolHeaderMismatch"
let res_str = function Lifecycle.ROk -> "ok" | Lifecycle.RErr k -> "err:" ^ kind_str k

let c12_obs (o : Lifecycle.obs list) : string =
  let wire = Stdlib.List.filter_map (function
    | Lifecycle.WHeader -> Some "H" | Lifecycle.WOpen -> Some "O" | Lifecycle.WClose -> Some "C"
    | Lifecycle.WCloseErr k -> Some ("Ce(" ^ kind_str k ^ ")") | _ -> None) o in
  let dones = Stdlib.List.filter_map (function
    | Lifecycle.DOpen r -> Some ("open=" ^ res_str r) | Lifecycle.DClose r -> Some ("close=" ^ res_str r) | _ -> None) o in
  let eof = if Stdlib.List.exists (function Lifecycle.WEof -> true | _ -> false) o then ["EOF"] else [] in
  Stdlib.String.concat " " ([Stdlib.String.concat "," wire] @ dones @ eof)

let c12 (rest : string) : string =
  let evs = split_on rest ';' in
  let buf = Buffer.create 256 in
  let s = Stdlib.List.fold_left (fun s e ->
    let ev = match words e with
      | ["open"] -> Lifecycle.EOpen | ["ph"] -> Lifecycle.EPHeader | ["phs"] -> Lifecycle.EPBadHeader
      | ["po"] -> Lifecycle.EPOpen | ["pc"] -> Lifecycle.EPClose false | ["pce"] -> Lifecycle.EPClose true
      | ["pb"; _; "-"] -> Lifecycle.EPIllegal Lifecycle.IBeginNoRemote
      | ["pb"; _; _] -> Lifecycle.EPIllegal Lifecycle.IBeginUnknown
      | ["pe"; _] -> Lifecycle.EPIllegal Lifecycle.IEndUnmapped
      | ["pf"; _] -> Lifecycle.EPIllegal Lifecycle.IFrameUnmapped
      | ["pz"] -> Lifecycle.EPEmpty | ["eof"] -> Lifecycle.EEof
      | ["close"] -> Lifecycle.EClose | ["closee"] -> Lifecycle.ECloseErr | ["drop"] -> Lifecycle.EDrop | ["abort"] -> Lifecycle.EAbort
      | ["pw"; _] -> Lifecycle.EPEmpty (* replaced below: classified from the bytes by the model *)
      | _ -> failwith ("c12: bad event " ^ e) in
    (* a second open frame is the IOpenAgain violation only once the connection is open *)
    let ev = match ev, s with
      | Lifecycle.EPOpen, Lifecycle.SOpened -> Lifecycle.EPIllegal Lifecycle.IOpenAgain
      | _ -> ev in
    let (s', o) = match words e with
      | ["pw"; hx] ->
          let bs = bytes_of_hex hx in
          WireEvents.on_frame_bytes (nat_of_int (Stdlib.List.length bs + 1)) s bs
      | _ -> Lifecycle.step s ev in
    Buffer.add_string buf (c12_obs o); Buffer.add_string buf " ; "; s') (Lifecycle.SStart []) evs in
  let fin = match s with
    | Lifecycle.SHdrSent | Lifecycle.SOpenSent | Lifecycle.SOpenFailed -> "open=PENDING"
    | Lifecycle.SCloseSent Lifecycle.WCloseCall | Lifecycle.SDiscardLocal Lifecycle.WCloseCall -> "close=PENDING"
    | Lifecycle.SDiscardProto (_, Lifecycle.WCloseCall) -> "close=PENDING"
    | Lifecycle.SOpened | Lifecycle.SDiscardProto (_, Lifecycle.WHandle) -> "running"
    | Lifecycle.SEnded (r, Lifecycle.HLive) -> "stopped=" ^ res_str r
    | _ -> "" in
  Buffer.add_string buf ("# " ^ fin); Buffer.contents buf

(* ---------- C17: heartbeat and idle deadline over virtual time ---------- *)
let c17 (rest : string) : string =
  match split_on rest '|' with
  | [hd; script] ->
      let l = (match words hd with ["L"; v] -> opt_n v | _ -> failwith "c17: bad header") in
      let evs = split_on script ';' in
      let buf = Buffer.create 256 in
      Buffer.add_string buf ("adv=" ^ (match Timers.advertised l with None -> "-" | Some v -> str_n v) ^ " ; ");
      let tres_str = function Timers.TOk -> "ok" | Timers.TRemoteClosed -> "RemoteClosed" | Timers.TIdleTimeout -> "IdleTimeout" in
      let now = ref 0 in
      let s = Stdlib.List.fold_left (fun s e ->
        (* `begin`: the application begins a session (the peer never answers): one frame at once, the timers unaffected *)
        let extra = (match words e with ["begin"; _] when s.Timers.phase = Timers.POpened -> [Printf.sprintf "B0@%d" !now] | _ -> []) in
        let (st, dt) = match words e with
          | ["w"; d] | ["begin"; d] -> (Timers.SNone, d) | ["po"; r; d] -> (Timers.SPeerOpen (opt_n r), d)
          | ["pz"; d] -> (Timers.SPeerEmpty, d) | ["pc"; d] -> (Timers.SPeerClose, d)
          | ["close"; d] -> (Timers.SClose, d) | ["closee"; d] -> (Timers.SCloseErr, d)
          | _ -> failwith ("c17: bad event " ^ e) in
        let (s', o) = Timers.tstep s (st, n_of_string dt) in
        let wire = Stdlib.List.filter_map (function
          | Timers.OEmpty t -> Some ("Z@" ^ str_n t) | Timers.OClose (t, false) -> Some ("C@" ^ str_n t)
          | Timers.OClose (t, true) -> Some ("Ce@" ^ str_n t) | _ -> None) o in
        let wire = extra @ wire in
        now := !now + int_of_string dt;
        let dones = Stdlib.List.filter_map (function
          | Timers.OOpenDone true -> Some "open=ok" | Timers.OOpenDone false -> Some "open=err"
          | Timers.OCloseDone r -> Some ("close=" ^ tres_str r) | Timers.OOutOfScope -> Some "OUT-OF-SCOPE" | _ -> None) o in
        let eof = Stdlib.List.filter_map (function Timers.OEof t -> Some ("EOF@" ^ str_n t) | _ -> None) o in
        Buffer.add_string buf (Stdlib.String.concat " " ([Stdlib.String.concat "," wire] @ dones @ eof));
        Buffer.add_string buf " ; "; s') (Timers.tinit l) evs in
      let fin = match s.Timers.phase with
        | Timers.PWaitOpen -> "open=PENDING"
        | Timers.POpened -> "running"
        | Timers.PCloseSent | Timers.PDiscard -> "close=PENDING"
        | Timers.PStopped (r, false) -> "stopped=" ^ tres_str r
        | _ -> "" in
      Buffer.add_string buf ("# " ^ fin); Buffer.contents buf
  | _ -> failwith "c17: expected `L v | script`"

(* ---------- rx: receiving link (C09, C10, C02 receiver side) ---------- *)
let kv (ws : string list) (k : string) : string =
  let pre = k ^ "=" in
  let n = Stdlib.String.length pre in
  match Stdlib.List.find_opt (fun w -> Stdlib.String.length w >= n && Stdlib.String.sub w 0 n = pre) ws with
  | Some w -> Stdlib.String.sub w n (Stdlib.String.length w - n)
  | None -> "-"
let opt_bool s = if s = "-" then None else Some (s = "1")
let bytes_of_hex (s : string) : coq_N list =
  if s = "-" then [] else
  Stdlib.List.init (Stdlib.String.length s / 2) (fun i -> n_of_int (int_of_string ("0x" ^ Stdlib.String.sub s (2 * i) 2)))
let hex_of_bytes (b : coq_N list) : string =
  if b = [] then "-" else Stdlib.String.concat "" (Stdlib.List.map (fun x -> Printf.sprintf "%02x" (int_of_n x)) b)

let rx_obs (o : Receiver.obs list) : string =
  let wire = Stdlib.List.filter_map (function
    | Receiver.OFlow (dc, c, d, e) -> Some (Printf.sprintf "F(dc=%s,c=%s,d=%d,e=%d)" (str_n dc) (str_n c) (if d then 1 else 0) (if e then 1 else 0))
    | Receiver.ODisp (f, l, s) -> Some (Printf.sprintf "P(%s,%s,%s)" (str_n f) (match l with None -> "-" | Some v -> str_n v) (if s then "s" else "u"))
    | _ -> None) o in
  let api = Stdlib.List.filter_map (function
    | Receiver.ORecv (d, fmt, msg) -> Some (Printf.sprintf "recv=ok(d=%s,t=%s,fmt=%s,msg=%s)" (str_n d.Receiver.d_id) (str_n d.Receiver.d_tag)
                                             (match fmt with None -> "-" | Some v -> str_n v) (hex_of_bytes msg))
    | Receiver.ORecvErr e -> Some ("recv=err:" ^ (match e with
        | Receiver.ETransferLimit -> "TransferLimitExceeded" | Receiver.EInconsistent -> "InconsistentFieldInMultiFrameDelivery"
        | Receiver.ENoDeliveryId -> "DeliveryIdIsNone" | Receiver.ENoDeliveryTag -> "DeliveryTagIsNone"
        | Receiver.EIllegalRsm -> "IllegalRcvSettleModeInTransfer"))
    | _ -> None) o in
  Stdlib.String.concat " " ([Stdlib.String.concat "," wire] @ api)

let rx (rest : string) : string =
  match split_on rest '|' with
  | hd :: script ->
      let hw = words hd in
      let mode = kv hw "mode" in
      let cm = if mode = "manual" then Receiver.Manual
               else Receiver.Auto (n_of_string (Stdlib.String.sub mode 5 (Stdlib.String.length mode - 5))) in
      let second = kv hw "second" = "1" in
      let idc = n_of_string (kv hw "idc") in
      let s0 = Receiver.rinit cm second idc in
      let buf = Buffer.create 512 in
      (match cm with
       | Receiver.Auto n -> Buffer.add_string buf (Printf.sprintf "F(dc=%s,c=%s,d=0,e=0)" (str_n idc) (str_n n))
       | Receiver.Manual -> ());
      Buffer.add_string buf " ; ";
      let evs = match script with [] -> [] | [x] -> split_on x ';' | _ -> failwith "rx: too many |" in
      let s = Stdlib.List.fold_left (fun s e ->
        let w = words e in
        let busy = s.Receiver.r_waiting in
        let ev = match w with
          | "t" :: f -> Some (Receiver.EXfer { Receiver.x_did = opt_n (kv f "did"); x_tag = opt_n (kv f "tag"); x_fmt = opt_n (kv f "fmt");
                                                x_settled = opt_bool (kv f "set"); x_more = (kv f "more" = "1"); x_rsm = opt_bool (kv f "rsm");
                                                x_aborted = (kv f "ab" = "1"); x_pay = bytes_of_hex (kv f "pay") })
          | ["recv"] -> Some Receiver.ERecv
          | ["rcancel"] -> Some Receiver.ECancelRecv
          | ["cred"; n] -> if busy then None else Some (Receiver.ECredit (n_of_string n))
          | ["drain"] -> if busy then None else Some Receiver.EDrain
          | "pflow" :: f -> Some (Receiver.EPFlow (opt_n (kv f "dc"), kv f "echo" = "1"))
          | ["acc"] -> if busy then None else Some (Receiver.EAccept false)
          | ["accn"] -> if busy then None else Some (Receiver.EAccept true)
          | ["accall"] -> if busy then None else Some Receiver.EAcceptAll
          | ["pset"; a; b] -> Some (Receiver.EPSettle (n_of_string a, n_of_string b))
          | _ -> failwith ("rx: bad event " ^ e) in
        match ev with
        | None -> Buffer.add_string buf " ; "; s
        | Some ev ->
            let (s', o) = Receiver.rstep s ev in
            Buffer.add_string buf (rx_obs o); Buffer.add_string buf " ; "; s') s0 evs in
      let fin =
        if s.Receiver.r_waiting then "recv=PENDING"
        else Printf.sprintf "credit=%s dc=%s drain=%d unsettled=[%s]" (str_n s.Receiver.r_credit) (str_n s.Receiver.r_dc)
               (if s.Receiver.r_drain then 1 else 0)
               (Stdlib.String.concat "," (Stdlib.List.map string_of_int (Stdlib.List.sort compare (Stdlib.List.map int_of_n s.Receiver.r_unsettled)))) in
      Buffer.add_string buf ("# " ^ fin); Buffer.contents buf
  | [] -> failwith "rx: empty"

(* ---------- comp: list-encoded composite types (derive macros + DescribedAccess) ---------- *)
let comp (rest : string) : string =
  let ws = words rest in
  let split_c s = if s = "-" then [] else Stdlib.String.split_on_char ',' s in
  let hexs (b : coq_N list) : string = Stdlib.String.concat "" (Stdlib.List.map (fun x -> Printf.sprintf "%02x" (int_of_n x)) b) in
  let value_of_hex (h : string) : Value.value =
    let bs = bytes_of_hex h in
    match Dec.from_slice (nat_of_int (Stdlib.List.length bs + 1)) bs with
    | Bytes.Ok (v, []) -> v
    | _ -> failwith ("comp: field does not decode in the model: " ^ h) in
  let kinds = let k = kv ws "kinds" in if k = "-" then "" else k in
  let dflts = split_c (kv ws "dflts") in
  let fks = Stdlib.List.mapi (fun i c ->
      match c with
      | 'O' -> Composite.FOpt
      | 'M' -> Composite.FMand
      | 'U' -> Composite.FMulti
      | 'D' -> Composite.FDflt (value_of_hex (Stdlib.List.nth dflts i))
      | _ -> failwith "comp: kind") (Stdlib.List.init (Stdlib.String.length kinds) (Stdlib.String.get kinds)) in
  let s_case = { Composite.s_name = bytes_of_hex (kv ws "name"); Composite.s_code = n_of_string (kv ws "code"); Composite.s_fields = fks } in
  (* the schema the theorems are about is the specification's; what the case line says the code has
     (name, kinds, defaults from Default::default()) must be that schema *)
  let s = match Composite.dispatch CompositeSpec.spec_schemas (Value.DCode s_case.Composite.s_code) with
    | Some sp -> sp
    | None -> failwith "comp: no such composite in the specification table" in
  let names_case = Stdlib.List.map (fun w -> Stdlib.List.init (Stdlib.String.length w) (fun i -> n_of_int (Char.code (Stdlib.String.get w i)))) (split_c (kv ws "names")) in
  if s <> s_case then "SCHEMA-MISMATCH the type's descriptor, field kinds or defaults differ from the specification table"
  else if CompositeSpec.spec_field_names s.Composite.s_code <> Some names_case then "SCHEMA-MISMATCH the type's field names or their order differ from the specification table" else
  let vs = Stdlib.List.map value_of_hex (split_c (kv ws "fields")) in
  let show_fields (fvs : Value.value list) : string =
    if fvs = [] then "-" else
    Stdlib.String.concat "," (Stdlib.List.map (fun v -> match Enc.enc_bytes v with Some b -> hexs b | None -> "ENCERR") fvs) in
  let dec (bs : coq_N list) : string =
    match Composite.dec_composite (nat_of_int (Stdlib.List.length bs + 1)) s bs with
    | Bytes.Ok (fvs, _) -> show_fields fvs
    | Bytes.Err _ -> "err"
    | Bytes.Panic -> "PANIC"
    | Bytes.OutOfFuel -> "OUTOFFUEL" in
  let code_i = int_of_n s.Composite.s_code in
  let via (bs : coq_N list) : string =
    let tbl = if code_i >= 16 && code_i <= 24 then Some CompositeSpec.performative_schemas
      else if (code_i >= 35 && code_i <= 39) || code_i = 51 || code_i = 52 then Some CompositeSpec.delivery_state_schemas
      else None in
    match tbl with
    | None -> "-"
    | Some t ->
      (match Composite.dec_via_enum (nat_of_int (Stdlib.List.length bs + 1)) t bs with
       | Bytes.Ok ((sv, fvs), _) -> str_n sv.Composite.s_code ^ ":" ^ show_fields fvs
       | Bytes.Err _ -> "err"
       | Bytes.Panic -> "PANIC"
       | Bytes.OutOfFuel -> "OUTOFFUEL") in
  let rec last2 = function [a; b] -> (a, b) | _ :: r -> last2 r | _ -> failwith "comp: form" in
  let (form, hx) = last2 ws in
  match form with
  | "canon" ->
      (match Composite.enc_composite Enc.Plain s vs with
       | Some b ->
           let sz = match Composite.size_composite Enc.Plain s vs with Some n -> str_n n | None -> "ERR" in
           "enc=" ^ hexs b ^ " size=" ^ sz ^ " dec=" ^ dec b ^ " enum=" ^ via b
       | None -> "enc=ERR")
  | "var" -> let bs = bytes_of_hex hx in "dec=" ^ dec bs ^ " enum=" ^ via bs
  | _ -> failwith "comp: unknown form"

(* ---------- fdec: the AMQP frame codec (C06, C15, C04) ---------- *)
let fdec (rest : string) : string =
  let ws = words rest in
  let split_c s = if s = "-" then [] else Stdlib.String.split_on_char ',' s in
  let hexs (b : coq_N list) : string = Stdlib.String.concat "" (Stdlib.List.map (fun x -> Printf.sprintf "%02x" (int_of_n x)) b) in
  let hexd b = if b = [] then "-" else hexs b in
  let value_of_hex (h : string) : Value.value =
    let bs = bytes_of_hex h in
    match Dec.from_slice (nat_of_int (Stdlib.List.length bs + 1)) bs with
    | Bytes.Ok (v, []) -> v
    | _ -> failwith ("fdec: field does not decode in the model: " ^ h) in
  let show_fields (fvs : Value.value list) : string =
    if fvs = [] then "-" else
    Stdlib.String.concat "," (Stdlib.List.map (fun v -> match Enc.enc_bytes v with Some b -> hexs b | None -> "ENCERR") fvs) in
  let dec (bs : coq_N list) : string =
    match AmqpFrame.dec_frame (nat_of_int (Stdlib.List.length bs + 1)) bs with
    | Bytes.Ok f ->
        (match f.AmqpFrame.f_body with
         | AmqpFrame.FEmpty -> "ok ch=" ^ str_n f.AmqpFrame.f_channel ^ " empty"
         | AmqpFrame.FPerf (s, vs, payload) ->
             "ok ch=" ^ str_n f.AmqpFrame.f_channel ^ " code=" ^ str_n s.Composite.s_code ^ " fields=" ^ show_fields vs ^ " payload=" ^ hexd payload)
    | Bytes.Err _ -> "err"
    | Bytes.Panic -> "PANIC"
    | Bytes.OutOfFuel -> "OUTOFFUEL" in
  match ws with
  | "dec" :: hx :: _ -> dec (bytes_of_hex hx)
  | "dec" :: [] -> dec []
  | "enc" :: _ ->
      let code = n_of_string (kv ws "code") in
      let s = match Composite.dispatch CompositeSpec.performative_schemas (Value.DCode code) with
        | Some s -> s | None -> failwith "fdec: not a performative" in
      let vs = Stdlib.List.map value_of_hex (split_c (kv ws "fields")) in
      let f = { AmqpFrame.f_channel = n_of_string (kv ws "ch"); AmqpFrame.f_body = AmqpFrame.FPerf (s, vs, bytes_of_hex (kv ws "payload")) } in
      (match AmqpFrame.enc_frame f with
       | Some b -> "enc=" ^ hexs b ^ " dec=" ^ dec b
       | None -> "enc=ERR")
  | "xfer" :: _ ->
      let vs = Stdlib.List.map value_of_hex (split_c (kv ws "fields")) in
      let payload = bytes_of_hex (kv ws "payload") in
      (match TransferWire.transfer_perfs vs with
       | None -> "wire=ERR"
       | Some p ->
         (match Transfer.wire_transfer (n_of_string (kv ws "m")) (n_of_string (kv ws "ch")) p payload with
          | None -> "wire=ERR"
          | Some chunks ->
              let strip c = match c with _ :: _ :: _ :: _ :: r -> r | _ -> [] in
              "wire=" ^ hexs (Stdlib.List.concat chunks) ^ " frames=" ^ Stdlib.String.concat "/" (Stdlib.List.map (fun c -> dec (strip c)) chunks)))
  | _ -> failwith "fdec: form"

(* ---------- sfr: the SASL frame codec and the PLAIN listener on the bytes of a frame ---------- *)
let sfr (rest : string) : string =
  let ws = words rest in
  let split_c s = if s = "-" then [] else Stdlib.String.split_on_char ',' s in
  let hexs (b : coq_N list) : string = Stdlib.String.concat "" (Stdlib.List.map (fun x -> Printf.sprintf "%02x" (int_of_n x)) b) in
  let value_of_hex (h : string) : Value.value =
    let bs = bytes_of_hex h in
    match Dec.from_slice (nat_of_int (Stdlib.List.length bs + 1)) bs with
    | Bytes.Ok (v, []) -> v
    | _ -> failwith ("sfr: field does not decode in the model: " ^ h) in
  let show_fields (fvs : Value.value list) : string =
    if fvs = [] then "-" else
    Stdlib.String.concat "," (Stdlib.List.map (fun v -> match Enc.enc_bytes v with Some b -> hexs b | None -> "ENCERR") fvs) in
  let dec (bs : coq_N list) : string =
    match SaslFrame.dec_sasl_frame (nat_of_int (Stdlib.List.length bs + 1)) bs with
    | Bytes.Ok f ->
        (* the typed structs hold fields of their declared types: what the value-level decoder accepts beyond that is an error there *)
        if SaslWire.typed_ok f then
          "ok code=" ^ str_n f.SaslFrame.sf_schema.Composite.s_code ^ " fields=" ^ show_fields f.SaslFrame.sf_fields
        else "err"
    | Bytes.Err _ -> "err"
    | Bytes.Panic -> "PANIC"
    | Bytes.OutOfFuel -> "OUTOFFUEL" in
  match ws with
  | "dec" :: hx :: _ -> dec (bytes_of_hex hx)
  | "dec" :: [] -> dec []
  | "enc" :: _ ->
      let code = n_of_string (kv ws "code") in
      let s = match Composite.dispatch SaslFrame.sasl_schemas (Value.DCode code) with
        | Some s -> s | None -> failwith "sfr: not a SASL frame body" in
      let vs = Stdlib.List.map value_of_hex (split_c (kv ws "fields")) in
      (match SaslFrame.enc_sasl_frame { SaslFrame.sf_schema = s; SaslFrame.sf_fields = vs } with
       | Some b -> "enc=" ^ hexs b ^ " dec=" ^ dec b
       | None -> "enc=ERR")
  | "plw" :: _ ->
      let hb k = let h = kv ws k in if h = "-" then [] else bytes_of_hex h in
      let last = Stdlib.List.nth ws (Stdlib.List.length ws - 1) in
      let bs = if Stdlib.String.contains last '=' then [] else bytes_of_hex last in
      let (st, o) = SaslWire.plain_on_frame_bytes (nat_of_int (Stdlib.List.length bs + 1)) (hb "u") (hb "p") bs in
      let toks = Stdlib.List.filter_map (fun x -> match x with
          | SaslListener.LOutOk -> Some "OutOk" | SaslListener.LOutFail -> Some "OutFail" | SaslListener.LH -> Some "H" | _ -> None) o in
      let acc = if Stdlib.List.mem SaslListener.LAcceptErr o then "accept=err" else if Stdlib.List.mem SaslListener.LAcceptOk o then "accept=ok" else "accept=pending" in
      ignore st;
      (if toks = [] then "-" else Stdlib.String.concat "," toks) ^ " | " ^ acc
  | _ -> failwith "sfr: form"

(* ---------- ctlm: the controller side of transactions ---------- *)
let ctlm (rest : string) : string =
  let script = match Stdlib.String.index_opt rest '|' with
    | Some i -> Stdlib.String.sub rest (i + 1) (Stdlib.String.length rest - i - 1) | None -> rest in
  let ops = Stdlib.List.filter (fun w -> w <> []) (Stdlib.List.map words (Stdlib.String.split_on_char ';' script)) in
  let conds = ["UnknownId"; "Rollback"; "Timeout"; "InternalError"] in
  let cond_ix (c : string) : coq_N =
    let rec go i = function [] -> failwith ("ctlm: condition " ^ c) | x :: r -> if x = c then n_of_int i else go (i + 1) r in go 0 conds in
  let cond_name (n : coq_N) : string = Stdlib.List.nth conds (int_of_n n) in
  let hexs (b : coq_N list) : string = Stdlib.String.concat "" (Stdlib.List.map (fun x -> Printf.sprintf "%02x" (int_of_n x)) b) in
  let arg (a : string) : string = match Stdlib.String.index_opt a ':' with
    | Some i -> Stdlib.String.sub a (i + 1) (Stdlib.String.length a - i - 1) | None -> "" in
  let answer (a : string) : Controller.answer =
    if a = "A" then Controller.AAccepted else if a = "L" then Controller.AOther
    else if Stdlib.String.length a > 2 && Stdlib.String.sub a 0 2 = "D:" then Controller.ADeclared (bytes_of_hex (arg a))
    else if Stdlib.String.length a > 2 && Stdlib.String.sub a 0 2 = "R:" then Controller.ARejected (cond_ix (arg a))
    else failwith ("ctlm: answer " ^ a) in
  let panswer (a : string) : Controller.panswer =
    if a = "TA" then Controller.PTxAccepted
    else if Stdlib.String.length a > 3 && Stdlib.String.sub a 0 3 = "TR:" then Controller.PTxRejected (cond_ix (arg a))
    else if Stdlib.String.length a > 2 && Stdlib.String.sub a 0 2 = "R:" then Controller.PRejected (cond_ix (arg a))
    else failwith ("ctlm: post answer " ^ a) in
  let nat s = nat_of_int (int_of_string s) in
  (* the prelude `ctl ; snd 1` is fixed: control link on handle 0, the sender on handle 1 *)
  let (pre, body) = match ops with
    | ["ctl"] :: ["snd"; "1"] :: r -> ("ok ; ok / A0c ; ok / A1s", r)
    | _ -> failwith "ctlm: prelude" in
  let cops = Stdlib.List.map (fun w -> match w with
    | ["decl"; a] -> Controller.ODecl (answer a)
    | ["post"; k; "1"; m; a] -> Controller.OPost (nat k, nat m, panswer a)
    | ["commit"; k; a] -> Controller.OCommit (nat k, answer a)
    | ["rollback"; k; a] -> Controller.ORollback (nat k, answer a)
    | ["disch"; k; f; a] -> Controller.ODisch (nat k, f = "1", answer a)
    | ["drop"; k] -> Controller.ODrop (nat k)
    | _ -> failwith ("ctlm: op " ^ Stdlib.String.concat " " w)) body in
  let (st, outs) = Controller.crun [] cops in
  let wire_tok (x : Controller.cwire) : string = match x with
    | Controller.WDecl -> "T0:decl"
    | Controller.WPost (id, m) -> "T1:m" ^ string_of_int (int_of_nat m) ^ ":tx(" ^ hexs id ^ ":none)"
    | Controller.WDisch (id, f) -> "T0:disch(" ^ hexs id ^ ":" ^ (if f then "1" else "0") ^ ")" in
  let res_tok (r : Controller.cres) : string = match r with
    | Controller.ROkId id -> "ok(" ^ hexs id ^ ")"
    | Controller.ROk -> "ok"
    | Controller.ROkAccepted -> "ok(acc)"
    | Controller.ROkRejected c -> "ok(rej(" ^ cond_name c ^ "))"
    | Controller.RRejected c -> "err(Rejected:" ^ cond_name c ^ ")"
    | Controller.RIllegalState -> "err(IllegalDeliveryState)"
    | Controller.RDropped -> "dropped"
    | Controller.RSkip -> "skip" in
  let steps = Stdlib.List.map (fun (w, r) -> res_tok r ^ " / " ^ Stdlib.String.concat "," (Stdlib.List.map wire_tok w)) outs in
  Stdlib.String.concat " ; " (pre :: steps) ^ " # " ^ Stdlib.String.concat "," (Stdlib.List.map wire_tok (Controller.final_wire st))

(* ---------- msg: the message codec at the level of sections ---------- *)
let msg (rest : string) : string =
  let ws = words rest in
  let hexs (b : coq_N list) : string = Stdlib.String.concat "" (Stdlib.List.map (fun x -> Printf.sprintf "%02x" (int_of_n x)) b) in
  let value_of_hex (h : string) : Value.value =
    let bs = bytes_of_hex h in
    match Dec.from_slice (nat_of_int (Stdlib.List.length bs + 1)) bs with
    | Bytes.Ok (v, []) -> v
    | _ -> failwith ("msg: section does not decode in the model: " ^ h) in
  let ov k = let h = kv ws k in if h = "-" then None else Some (value_of_hex h) in
  (* the implementation's sections are typed: re-encoded they carry their descriptor by code whatever form arrived *)
  let canon v = match v with
    | Value.VDescribed (d, x) -> (match Message.code_of_descriptor d with Some c -> Value.VDescribed (Value.DCode c, x) | None -> v)
    | _ -> v in
  let sec v = match Enc.enc_bytes (canon v) with Some b -> hexs b | None -> "ENCERR" in
  let so = function None -> "-" | Some v -> sec v in
  let show (m : Message.msg) : string =
    "h=" ^ so m.Message.m_header ^ " da=" ^ so m.Message.m_da ^ " ma=" ^ so m.Message.m_ma ^ " p=" ^ so m.Message.m_props ^
    " ap=" ^ so m.Message.m_ap ^ " body=" ^ (if m.Message.m_body = [] then "-" else Stdlib.String.concat "," (Stdlib.List.map sec m.Message.m_body)) ^
    " f=" ^ so m.Message.m_footer in
  let dec (bs : coq_N list) : string =
    match Message.dec_message (nat_of_int (Stdlib.List.length bs + 1)) bs with
    | Bytes.Ok m -> show m
    | Bytes.Err _ -> "err"
    | Bytes.Panic -> "PANIC"
    | Bytes.OutOfFuel -> "OUTOFFUEL" in
  match ws with
  | "dec" :: hx :: _ -> dec (bytes_of_hex hx)
  | "enc" :: _ ->
      let body = let b = kv ws "body" in if b = "-" then [] else Stdlib.List.map value_of_hex (Stdlib.String.split_on_char ',' b) in
      let m = { Message.m_header = ov "h"; m_da = ov "da"; m_ma = ov "ma"; m_props = ov "p"; m_ap = ov "ap"; m_body = body; m_footer = ov "f" } in
      (match Message.enc_message m with
       | Some b -> "enc=" ^ hexs b ^ " dec=" ^ dec b
       | None -> "enc=ERR")
  | _ -> failwith "msg: form"

(* ---------- lifem: session lifecycle (C13) ---------- *)
let lifem (rest : string) : string =
  let evs = split_on rest ';' in
  let buf = Buffer.create 256 in
  let sres_str = function SessLife.SOk -> "ok" | SessLife.SRemoteEnded -> "err:RemoteEnded"
                        | SessLife.SRemoteEndedWithError -> "err:RemoteEndedWithError(Error)" in
  let s = Stdlib.List.fold_left (fun s e ->
    let ev = match words e with
      | ["begin"] -> SessLife.SBegin | ["pb"] -> SessLife.SPBegin | ["end"] -> SessLife.SEnd | ["ende"] -> SessLife.SEndErr
      | ["drops"] -> SessLife.SDropS | ["aborts"] -> SessLife.SAbortS | ["pe"] -> SessLife.SPEnd false | ["pee"] -> SessLife.SPEnd true
      | _ -> failwith ("lifem: bad event " ^ e) in
    let (s', o) = SessLife.sstep s ev in
    let wire = Stdlib.List.filter_map (function
      | SessLife.WBegin -> Some "B0" | SessLife.WEnd false -> Some "E0" | SessLife.WEnd true -> Some "E0e(NotAllowed)" | _ -> None) o in
    let api = Stdlib.List.filter_map (function
      | SessLife.DBegin -> Some "begin=ok" | SessLife.DEnd r -> Some ("end=" ^ sres_str r) | _ -> None) o in
    Buffer.add_string buf (Stdlib.String.concat " " ([Stdlib.String.concat "," wire] @ api)); Buffer.add_string buf " ; "; s') SessLife.SNone evs in
  let fin = match s with
    | SessLife.SNone -> "conn=open"
    | SessLife.SBeginSent -> "begin=PENDING"
    | SessLife.SMapped -> "sess=running conn=open"
    | SessLife.SEndSent SessLife.SWCall -> "sess=PENDING conn=open"
    | SessLife.SEndSent SessLife.SWGone -> "conn=open"
    | SessLife.SEnded (r, SessLife.SHLive) -> "ended=" ^ sres_str r ^ " conn=open"
    | SessLife.SEnded (_, _) -> "conn=open" in
  Buffer.add_string buf ("# " ^ fin); Buffer.contents buf

(* ---------- saslm: the listener's SASL layer (C19) ---------- *)
let saslm (rest : string) : string =
  match split_on rest '|' with
  | [hd; script] ->
      let m = (match words hd with ["plain"] -> SaslListener.MPlain | ["scram"] -> SaslListener.MScram | _ -> failwith "saslm: bad mech") in
      let acts = split_on script ';' in
      let buf = Buffer.create 128 in
      Buffer.add_string buf "Hs";
      let _ = Stdlib.List.fold_left (fun s a ->
        let act = match words a with
          | ["hs"] -> SaslListener.CHs | ["ha"] -> SaslListener.CHa | ["hdrx"] -> SaslListener.CHdrX
          | ["initok"] -> SaslListener.CInitOk | ["initbad"] -> SaslListener.CInitBad
          | ["respok"] -> SaslListener.CRespOk | ["respbad"] -> SaslListener.CRespBad
          | ["cframe"] -> SaslListener.CFrame | ["open"] -> SaslListener.COpen | ["eof"] -> SaslListener.CEof
          | _ -> failwith ("saslm: bad action " ^ a) in
        let (s', o) = SaslListener.lstep m s act in
        let wire = Stdlib.List.filter_map (function
          | SaslListener.LM -> Some "M" | SaslListener.LCh -> Some "Ch" | SaslListener.LOutOk -> Some "OutOk"
          | SaslListener.LOutFail -> Some "OutFail" | SaslListener.LH -> Some "H" | SaslListener.LO -> Some "O" | SaslListener.LC -> Some "C" | SaslListener.LCe -> Some "Ce(IllegalState)" | _ -> None) o in
        let w = if wire = [] then "-" else Stdlib.String.concat "," wire in
        let acc = if Stdlib.List.mem SaslListener.LAcceptOk o then " accept=ok" else if Stdlib.List.mem SaslListener.LAcceptErr o then " accept=err" else "" in
        let eof = if Stdlib.List.mem SaslListener.LEof o then " EOF" else "" in
        Buffer.add_string buf (" ; " ^ w ^ acc ^ eof); s') SaslListener.LHdr acts in
      Buffer.contents buf
  | _ -> failwith "saslm: expected `mech | actions`"

(* ---------- ssplit: the session's split of an oversized transfer ---------- *)
let ssplit (rest : string) : string =
  match words rest with
  | [mfb; lfs; lf; lr; n] ->
      (* the single-frame test uses the performative as given (more unchanged), the split the one with more=true *)
      let mfb = n_of_string mfb and lfs = n_of_string lfs and lf = n_of_string lf and lr = n_of_string lr and n = n_of_string n in
      let sizes = if int_of_n lfs + int_of_n n <= int_of_n mfb then [n] else SessionSplit.session_split mfb lf lr n in
      "OK " ^ Stdlib.String.concat "," (Stdlib.List.map str_n sizes)
  | _ -> failwith "ssplit: expected mfb lf_single lf lr n"

(* ---------- C05: the specification-derived reference decoder ---------- *)
let codec_spec (rest : string) : string =
  let bs = bytes_of_hex (Stdlib.String.trim rest) in
  match Spec.spec_valid (nat_of_int 10) bs with
  | Some v -> let b = Buffer.create 64 in Buffer.add_string b "OK "; print_value b v; Buffer.contents b
  | None -> "INVALID"

(* ---------- lifel: sender link lifecycle (C13) ---------- *)
let lifel (rest : string) : string =
  let evs = split_on rest ';' in
  let buf = Buffer.create 256 in
  let err_str = function
    | LinkLife.RRemoteDetached -> "LinkStateError(RemoteDetached)" | LinkLife.RRemoteClosed -> "LinkStateError(RemoteClosed)"
    | LinkLife.RRemoteClosedWithError -> "LinkStateError(RemoteClosedWithError(Error))"
    | LinkLife.RDetachedByRemote -> "DetachedByRemote" | LinkLife.RClosedByRemote -> "ClosedByRemote"
    | LinkLife.RExpectImmediateDetach -> "LinkStateError(ExpectImmediateDetach)"
    | LinkLife.RIllegalState -> "LinkStateError(IllegalState)" in
  let derr_str = function
    | LinkLife.RRemoteClosedWithError -> "RemoteClosedWithError(Error)" | e -> err_str e in
  let sent = ref 0 in
  let s = Stdlib.List.fold_left (fun s e ->
    let ev = match words e with
      | ["pa"] -> LinkLife.VPAttach | ["pflow"] -> LinkLife.VPFlow | ["pacc"] -> LinkLife.VPAccept
      | ["pd"] -> LinkLife.VPDetach LinkLife.KDetach | ["pdc"] -> LinkLife.VPDetach LinkLife.KClose | ["pde"] -> LinkLife.VPDetach LinkLife.KCloseErr
      | ["send"] -> LinkLife.VSend | ["det"] -> LinkLife.VDetach | ["cls"] -> LinkLife.VClose
      | ["dropl"] -> LinkLife.VDrop | ["abortl"] -> LinkLife.VAbort
      | _ -> failwith ("lifel: bad event " ^ e) in
    let (s', o) = LinkLife.lkstep s ev in
    let wire = Stdlib.List.filter_map (function
      | LinkLife.XTransfer -> let k = !sent in incr sent; Some (Printf.sprintf "T0h0d%dp10" k) | LinkLife.XDetach false -> Some "D0h0" | LinkLife.XDetach true -> Some "D0h0c"
      | LinkLife.XAttach -> Some "A0h0s" | _ -> None) o in
    let api = Stdlib.List.filter_map (function
      | LinkLife.DAttach -> Some "att=ok"
      | LinkLife.DSend None -> Some "send=Accepted(Accepted)" | LinkLife.DSend (Some e) -> Some ("send=err:" ^ err_str e)
      | LinkLife.DDetach None -> Some "det=ok" | LinkLife.DDetach (Some e) -> Some ("det=err:" ^ derr_str e)
      | LinkLife.DClose None -> Some "cls=ok" | LinkLife.DClose (Some e) -> Some ("cls=err:" ^ derr_str e)
      | _ -> None) o in
    Buffer.add_string buf (Stdlib.String.concat " " ([Stdlib.String.concat "," wire] @ api)); Buffer.add_string buf " ; "; s') LinkLife.LAttSent evs in
  let fin = match s with
    | LinkLife.LAttSent -> "att=PENDING"
    | LinkLife.LSendBlocked | LinkLife.LSendWait _ | LinkLife.LDetSent | LinkLife.LClsSent | LinkLife.LReattach -> "link=PENDING sess=running"
    | _ -> "sess=running" in
  Buffer.add_string buf ("# " ^ fin ^ " conn=open"); Buffer.contents buf

(* ---------- cutm: failure propagation (C14) ---------- *)
let cutm (rest : string) : string =
  let evs = split_on rest ';' in
  let hidx = function Failure.HConn -> 0 | Failure.HSess -> 1 | Failure.HTx -> 2 | Failure.HRx -> 3 in
  let cur : string ref option array = Stdlib.Array.make 4 None in
  let results : (string * string ref) list ref = ref [] in
  let dropped = ref false in
  let b c = (c = '1') in
  let res_str = function
    | Failure.ROk -> "ok"
    | Failure.RErr (sc, e) ->
        "err:" ^ (match sc with Failure.ScLink -> "link" | Failure.ScSess -> "sess" | Failure.ScConn -> "conn" | Failure.ScNone -> "none")
        ^ (if e then "+e" else "") in
  let st = ref Failure.init in
  let feed (e : Failure.event) =
    let (s1, o1) = Failure.step !st e in
    let (s2, o2) = Failure.step s1 Failure.EProp in
    st := s2;
    Stdlib.List.iter (fun (Failure.Done (h, r)) ->
      match cur.(hidx h) with
      | Some cell when !cell = "PENDING" -> cell := res_str r ^ (if !dropped then "~" else "")
      | _ -> ()) (o1 @ o2) in
  Stdlib.List.iter (fun e ->
    match Stdlib.String.index_opt e '=' with
    | Some i ->
        let name = Stdlib.String.sub e 0 i and kind = Stdlib.String.sub e (i + 1) (Stdlib.String.length e - i - 1) in
        let (h, c) = match kind with
          | "open" -> (Failure.HConn, Failure.COpen) | "begin" -> (Failure.HConn, Failure.CBegin) | "close" -> (Failure.HConn, Failure.CClose)
          | "attach_s" -> (Failure.HSess, Failure.CAttach Failure.Snd) | "attach_r" -> (Failure.HSess, Failure.CAttach Failure.Rcv)
          | "end" -> (Failure.HSess, Failure.CEnd)
          | "send" -> (Failure.HTx, Failure.CSend false) | "sendb" -> (Failure.HTx, Failure.CSend true) | "out" -> (Failure.HTx, Failure.COutcome)
          | "detach_s" -> (Failure.HTx, Failure.CDetach Failure.Snd)
          | "recv" -> (Failure.HRx, Failure.CRecv) | "acc" -> (Failure.HRx, Failure.CAccept) | "close_r" -> (Failure.HRx, Failure.CCloseL Failure.Rcv)
          | _ -> failwith ("cutm: bad call " ^ e) in
        let cell = ref "PENDING" in
        cur.(hidx h) <- Some cell;
        results := (name, cell) :: !results;
        feed (Failure.ECall c)
    | None ->
        let ev = match e with
          | "p:O" -> Failure.EPOpen | "p:B" -> Failure.EPBegin
          | "p:As" -> Failure.EPAttach Failure.Snd | "p:Ar" -> Failure.EPAttach Failure.Rcv
          | "p:Fs" -> Failure.EPFlow | "p:S0" -> Failure.EPSettle false | "p:S1" -> Failure.EPSettle true
          | "p:T" -> Failure.EPTransfer
          | "x:eof" -> Failure.ETransport Failure.TEof | "x:reset" -> Failure.ETransport Failure.TReset
          | "x:drop" -> dropped := true; Failure.ETransport Failure.TEof
          | _ when Stdlib.String.length e = 6 && Stdlib.String.sub e 0 4 = "p:Ds" -> Failure.EPDetach (Failure.Snd, b e.[4], b e.[5])
          | _ when Stdlib.String.length e = 6 && Stdlib.String.sub e 0 4 = "p:Dr" -> Failure.EPDetach (Failure.Rcv, b e.[4], b e.[5])
          | _ when Stdlib.String.length e = 4 && Stdlib.String.sub e 0 3 = "p:E" -> Failure.EPEnd (b e.[3])
          | _ when Stdlib.String.length e = 4 && Stdlib.String.sub e 0 3 = "p:C" -> Failure.EPClose (b e.[3])
          | _ -> failwith ("cutm: bad event " ^ e) in
        feed ev) evs;
  let eng =
    (match !st.Failure.cn.Failure.cph with Failure.COpened | Failure.CCloseSent -> 1 | _ -> 0)
    + (match !st.Failure.ss.Failure.sph with Failure.SBeginSent | Failure.SMapped | Failure.SEndSent -> 1 | _ -> 0) in
  Stdlib.String.concat " " (Stdlib.List.rev_map (fun (n, c) -> n ^ "=" ^ !c) !results) ^ " eng=" ^ string_of_int eng

(* ---------- lifer: receiver link lifecycle (C13) ---------- *)
let lifer (rest : string) : string =
  let evs = split_on rest ';' in
  let buf = Buffer.create 256 in
  let err_str = function
    | RecvLife.ERemoteDetached -> "RemoteDetached" | RecvLife.ERemoteClosed -> "RemoteClosed"
    | RecvLife.ERemoteClosedWithError -> "RemoteClosedWithError(Error)"
    | RecvLife.EDetachedByRemote -> "DetachedByRemote" | RecvLife.EClosedByRemote -> "ClosedByRemote"
    | RecvLife.EIllegalState -> "IllegalState" in
  let disposed = ref 0 in
  let s = Stdlib.List.fold_left (fun s e ->
    let ev = match words e with
      | ["pa"] -> RecvLife.EPAttach | ["pt"] -> RecvLife.EPTransfer
      | ["pd"] -> RecvLife.EPDetach RecvLife.QDetach | ["pdc"] -> RecvLife.EPDetach RecvLife.QClose | ["pde"] -> RecvLife.EPDetach RecvLife.QCloseErr
      | ["recv"] -> RecvLife.ERecv | ["det"] -> RecvLife.EDetach | ["cls"] -> RecvLife.EClose
      | ["dropl"] -> RecvLife.EDrop | ["abortl"] -> RecvLife.EAbort
      | _ -> failwith ("lifer: bad event " ^ e) in
    let (s', o) = RecvLife.rkstep s ev in
    let wire = Stdlib.List.filter_map (function
      | RecvLife.YFlow -> Some "F0h0c2"
      | RecvLife.YDisp -> let k = !disposed in incr disposed; Some (Printf.sprintf "P0rf%ds" k)
      | RecvLife.YDetach false -> Some "D0h0" | RecvLife.YDetach true -> Some "D0h0c"
      | RecvLife.YAttach -> Some "A0h0r" | RecvLife.YEnd -> Some "E0e(UnattachedHandle)" | _ -> None) o in
    let api = Stdlib.List.filter_map (function
      | RecvLife.RAttached -> Some "att=ok"
      | RecvLife.RRecv None -> Some "recv=ok" | RecvLife.RRecv (Some e) -> Some ("recv=err:LinkStateError(" ^ err_str e ^ ")")
      | RecvLife.RDet None -> Some "det=ok" | RecvLife.RDet (Some e) -> Some ("det=err:" ^ err_str e)
      | RecvLife.RCls None -> Some "cls=ok" | RecvLife.RCls (Some e) -> Some ("cls=err:" ^ err_str e)
      | _ -> None) o in
    Buffer.add_string buf (Stdlib.String.concat " " ([Stdlib.String.concat "," wire] @ api)); Buffer.add_string buf " ; "; s') RecvLife.RAttSent evs in
  let fin = match s with
    | RecvLife.RAttSent -> "att=PENDING"
    | RecvLife.RRecvWait | RecvLife.RDetSent | RecvLife.RClsSent | RecvLife.RReattach _ | RecvLife.RReCls _ -> "link=PENDING sess=running"
    | _ -> "sess=running" in
  Buffer.add_string buf ("# " ^ fin ^ " conn=open"); Buffer.contents buf

(* ---------- txnm: the listener-side transactional resource (C18) ---------- *)
let txnm (rest : string) : string =
  let acts = Stdlib.List.map words (split_on rest ';') in
  let is_decl a = (match a with ("decl" | "decl2") :: _ -> true | _ -> false) in
  let total_decls = Stdlib.List.length (Stdlib.List.filter is_decl acts) in
  (* decl action index -> the id the model answered with *)
  let ids : (int * coq_N) list ref = ref [] in
  let ndecl = ref 0 in
  (* ids the model can never issue in this script: its counter stays below the number of declares *)
  let resolve (r : string) : coq_N =
    if r = "bogus" then n_of_int total_decls
    else
      let k = (try int_of_string (Stdlib.String.sub r 1 (Stdlib.String.length r - 1)) with _ -> failwith ("txnm: bad id " ^ r)) in
      (match Stdlib.List.assoc_opt k !ids with Some id -> id | None -> n_of_int (total_decls + 1 + k)) in
  let label (id : coq_N) : string =
    match Stdlib.List.find_opt (fun (_, i) -> i = id) !ids with
    | Some (k, _) -> "t" ^ string_of_int k
    | None -> "x" ^ str_n id in
  let ctl_of v = if Stdlib.String.length v > 0 && v.[Stdlib.String.length v - 1] = '2' then n_of_int 1 else N0 in
  let ev (a : string list) : Manager.event =
    match a with
    | [("ctl" | "ctl2") as v] -> Manager.ECtlAttach (ctl_of v)
    | [("dctl" | "dctl2") as v] -> Manager.ECtlDetach (ctl_of v)
    | ["lnk"; i] -> Manager.ELinkAttach (n_of_string i)
    | [("decl" | "decl2") as v] -> Manager.EDeclare (ctl_of v)
    | ("post" | "postm") :: i :: tx :: m :: tl ->
        let settled = (match tl with [] -> false | ["s"] -> true | _ -> failwith "txnm: bad post") in
        Manager.EPost (n_of_string i, (if tx = "-" then None else Some (resolve tx)), settled, n_of_string m)
    | [("commit" | "commitn" | "commit2") as v; tx] -> Manager.ECommit (ctl_of v, resolve tx)
    | [("rollback" | "rollback2") as v; tx] -> Manager.ERollback (ctl_of v, resolve tx)
    | ["dropsess"] -> Manager.ESessionEnd
    | ["dropconn"] -> Manager.EConnLost
    | _ -> failwith ("txnm: bad action " ^ Stdlib.String.concat " " a) in
  let show (o : Manager.output list) : string =
    let err = function Manager.UnknownId -> "UnknownId" | Manager.TxRollback -> "Rollback" | Manager.TxTimeout -> "Timeout" in
    let ans = Stdlib.List.filter_map (function
      | Manager.OAttached -> Some "att" | Manager.ODetached -> Some "detached"
      | Manager.ODeclared id -> Some ("declared(" ^ label id ^ ")")
      | Manager.OAccepted -> Some "accepted" | Manager.ORejected e -> Some ("rejected(" ^ err e ^ ")")
      | Manager.OProvisional id -> Some ("prov(" ^ label id ^ ")")
      | Manager.OSessionEnd None -> Some "end" | Manager.OSessionEnd (Some e) -> Some ("end(" ^ err e ^ ")")
      | Manager.ODeliver (_, _) -> None) o in
    let dels = Stdlib.List.filter_map (function Manager.ODeliver (l, m) -> Some (int_of_n l, int_of_n m) | _ -> None) o in
    let lks = Stdlib.List.sort_uniq compare (Stdlib.List.map fst dels) in
    let per = Stdlib.List.map (fun l ->
      " l" ^ string_of_int l ^ ":" ^
      Stdlib.String.concat "," (Stdlib.List.filter_map (fun (l', m) -> if l' = l then Some ("m" ^ string_of_int m) else None) dels)) lks in
    (if ans = [] then "-" else Stdlib.String.concat "," ans) ^ Stdlib.String.concat "" per in
  let (_, groups) = Stdlib.List.fold_left (fun (s, acc) a ->
    let k = !ndecl in
    if is_decl a then incr ndecl;
    let e = ev a in
    if not (Manager.enabled s e) then (s, "skip" :: acc)
    else begin
      let (s', o) = Manager.step s e in
      Stdlib.List.iter (function Manager.ODeclared id -> ids := (k, id) :: !ids | _ -> ()) o;
      (s', show o :: acc)
    end) (Manager.init, []) acts in
  Stdlib.String.concat " ; " (Stdlib.List.rev groups) ^ " # -"

(* ---------- txcm: send() with drop points (C16) ----------
   case: `| G<n> ; C<msg>:<pieces>:<ok|x> ; ... # <observed transfers>`.  The calls marked x were dropped (or timed
   out) at an unknown await point: the model's drop points are searched, depth first, for an assignment under
   which the model's wire equals the observed transfers (pruned as soon as the wire stops being a prefix of them).
   Printed: the observed transfers when such an assignment exists, otherwise what the model writes when every x
   call is dropped before taking its credit. *)
let rec nat_of_int_ (i : int) : Datatypes.nat = if i <= 0 then Datatypes.O else Datatypes.S (nat_of_int_ (i - 1))
let rec int_of_nat_ (n : Datatypes.nat) : int = match n with Datatypes.O -> 0 | Datatypes.S m -> 1 + int_of_nat_ m
let txcm (rest : string) : string =
  let (script, observed) = match Stdlib.String.index_opt rest '#' with
    | Some i -> (Stdlib.String.sub rest 0 i, Stdlib.String.trim (Stdlib.String.sub rest (i + 1) (Stdlib.String.length rest - i - 1)))
    | None -> (rest, "") in
  let script = (match Stdlib.String.index_opt script '|' with
    | Some i -> Stdlib.String.sub script (i + 1) (Stdlib.String.length script - i - 1) | None -> script) in
  let evs = split_on script ';' in
  let show (s : SendCancel.lstate) : string =
    Stdlib.String.concat "," (Stdlib.List.map (fun (f : SendCancel.frame) ->
      Printf.sprintf "t%s.i%d.m%s.g%s" (str_n f.SendCancel.f_tag) (int_of_nat_ f.SendCancel.f_idx) (str_b f.SendCancel.f_more) (str_n f.SendCancel.f_msg))
      s.SendCancel.wire) in
  let is_prefix a b = Stdlib.String.length a <= Stdlib.String.length b && Stdlib.String.sub b 0 (Stdlib.String.length a) = a in
  let parse e = match Stdlib.String.get e 0 with
    | 'G' -> `G (n_of_string (Stdlib.String.sub e 1 (Stdlib.String.length e - 1)))
    | 'C' -> (match Stdlib.String.split_on_char ':' (Stdlib.String.sub e 1 (Stdlib.String.length e - 1)) with
              | [m; p; k] -> `C (n_of_string m, int_of_string p, k = "ok")
              | _ -> failwith ("txcm: bad call " ^ e))
    | _ -> failwith ("txcm: bad event " ^ e) in
  let evs = Stdlib.List.map parse evs in
  let stepo s e = match SendCancel.step s e with Some s' -> s' | None -> s in
  (* default: every x call dropped before its credit *)
  let default = Stdlib.List.fold_left (fun s e -> match e with
    | `G n -> stepo s (SendCancel.Grant n)
    | `C (m, p, ok) -> stepo s (SendCancel.Call { SendCancel.c_msg = m; SendCancel.c_pieces = nat_of_int_ p;
                                                   SendCancel.c_drop = (if ok then None else Some Datatypes.O) })) (SendCancel.init N0) evs in
  let rec search s evs =
    let w = show s in
    if not (is_prefix w observed) then false
    else match evs with
      | [] -> w = observed
      | `G n :: r -> search (stepo s (SendCancel.Grant n)) r
      | `C (m, p, true) :: r ->
          (match SendCancel.step s (SendCancel.Call { SendCancel.c_msg = m; SendCancel.c_pieces = nat_of_int_ p; SendCancel.c_drop = None }) with
           | Some s' -> search s' r
           | None -> false)   (* a call that completed cannot have been without credit *)
      | `C (m, p, false) :: r ->
          let rec try_k k = if k > p + 1 then false
            else (search (stepo s (SendCancel.Call { SendCancel.c_msg = m; SendCancel.c_pieces = nat_of_int_ p; SendCancel.c_drop = Some (nat_of_int_ k) })) r) || try_k (k + 1) in
          try_k 0 in
  if search (SendCancel.init N0) evs then observed else show default

(* ---------- saslc: the SCRAM client (C19) ----------
   case: `| <ev> <ev> ; <ev> ; ...` - the server's messages stage by stage; printed: what the client does per stage *)
let saslc (rest : string) : string =
  let script = (match Stdlib.String.index_opt rest '|' with
    | Some i -> Stdlib.String.sub rest (i + 1) (Stdlib.String.length rest - i - 1) | None -> rest) in
  let stages = Stdlib.List.map Stdlib.String.trim (Stdlib.String.split_on_char ';' script) in
  let code = function
    | "ok" -> ScramClient.KOk | "auth" -> ScramClient.KAuth | "sys" -> ScramClient.KSys | "sysperm" -> ScramClient.KSysPerm
    | "systemp" -> ScramClient.KSysTemp | "other" -> ScramClient.KOther | c -> failwith ("saslc: bad code " ^ c) in
  let data = function
    | "good" -> ScramClient.DGood | "bad" -> ScramClient.DBad | "none" -> ScramClient.DNone | d -> failwith ("saslc: bad data " ^ d) in
  let ev e = match Stdlib.String.split_on_char ':' e with
    | ["hs"] -> ScramClient.VHdrSasl | ["hx"] -> ScramClient.VHdrOther
    | ["m1"] -> ScramClient.VMechs true | ["m0"] -> ScramClient.VMechs false
    | ["c1"] -> ScramClient.VChal true | ["c0"] -> ScramClient.VChal false
    | ["o"; c; d] -> ScramClient.VOutcome (code c, data d)
    | ["amqp"] -> ScramClient.VAmqp | ["g"] -> ScramClient.VGarbage | ["eof"] -> ScramClient.VEof
    | _ -> failwith ("saslc: bad event " ^ e) in
  let cname = function
    | ScramClient.KOk -> "ok" | ScramClient.KAuth -> "auth" | ScramClient.KSys -> "sys" | ScramClient.KSysPerm -> "sysperm"
    | ScramClient.KSysTemp -> "systemp" | ScramClient.KOther -> "other" in
  let obs = function
    | ScramClient.OInit -> "I" | ScramClient.OResp -> "R" | ScramClient.OAmqpHdr -> "H" | ScramClient.OOpen -> "O"
    | ScramClient.ROk -> "ok"
    | ScramClient.RErr ScramClient.EHeaderMismatch -> "err(hdr)" | ScramClient.RErr ScramClient.ENotImplemented -> "err(notimpl)"
    | ScramClient.RErr ScramClient.EScram -> "err(scram)" | ScramClient.RErr (ScramClient.ESasl c) -> "err(sasl:" ^ cname c ^ ")"
    | ScramClient.RErr ScramClient.EDecode -> "err(decode)" | ScramClient.RErr ScramClient.EIo -> "err(io)" in
  let (_, outs) = Stdlib.List.fold_left (fun (s, acc) stage ->
    let evs = words stage in
    let (s', o) = Stdlib.List.fold_left (fun (s, o) e -> let (s1, o1) = ScramClient.cstep s (ev e) in (s1, o @ o1)) (s, []) evs in
    (s', acc @ [Stdlib.String.concat "," (Stdlib.List.map obs o)])) (ScramClient.CWaitHdr, []) stages in
  Stdlib.String.concat " ; " outs

let dispatch (line : string) : string =
  match Stdlib.String.index_opt line ' ' with
  | None -> failwith "no model tag"
  | Some i ->
      let tag = Stdlib.String.sub line 0 i in
      let rest = Stdlib.String.sub line (i + 1) (Stdlib.String.length line - i - 1) in
      (match tag with
       | "c07" -> c07 rest
       | "c08" -> c08 rest
       | "c02" -> c02 rest
       | "c12" -> c12 rest
       | "c17" -> c17 rest
       | "rx" -> rx rest
       | "lifem" -> lifem rest
       | "lifel" -> lifel rest
       | "lifer" -> lifer rest
       | "txcm" -> txcm rest
       | "txnm" -> txnm rest
       | "cutm" -> cutm rest
       | "saslm" -> saslm rest
       | "saslc" -> saslc rest
       | "ssplit" -> ssplit rest
       | "lnk" -> c11_lnk rest
       | "chn" -> c11_chn rest
       | "xfer" -> frame_xfer rest
       | "other" -> frame_other rest
       | "ldf" -> frame_ldf rest
       | "comp" -> comp rest
       | "fdec" -> fdec rest
       | "sfr" -> sfr rest
       | "ctlm" -> ctlm rest
       | "msg" -> msg rest
       | "enc" -> codec_enc rest
       | "dec" -> codec_dec rest
       | "spec" -> codec_spec rest
       | "specv" -> codec_spec rest
       | _ -> failwith ("unknown model " ^ tag))

let () =
  try
    while true do
      let line = input_line stdin in
      if Stdlib.String.trim line <> "" then begin
        let out = try dispatch line with Failure m -> "ORACLE-ERROR " ^ m in
        print_string out; print_newline ()
      end
    done
  with End_of_file -> ()
