#!/bin/sh
# build the oracle from the current Coq development (expects ../coq to be built)
set -e
cd "$(dirname "$0")"
rm -rf gen && mkdir gen && cd gen
coqc -Q ../../coq FV ../Extract.v > extract.log 2>&1 || { cat extract.log; exit 1; }
rm -f ../Extract.vo ../Extract.glob ../Extract.vok ../Extract.vos ../.Extract.aux
cp ../driver.ml .
FILES=$(ocamlfind ocamldep -sort *.mli *.ml)
ocamlfind ocamlopt -O3 -w -a $FILES -o ../oracle 2>/dev/null || ocamlfind ocamlopt -w -a $FILES -o ../oracle
